"""C02 - every reference form denotes exactly the intended cells of the intended sheet.  BE over reference spellings."""
import itertools

from mc import driver as D

PROP = 'C02'
RULE = ('workbooks in which every cell of an 8x8 block on each of three sheets holds a unique number '
        '(sheet*10^6+column*10^3+row); complete product of: all sub-rectangles of a 4x4 window at three offsets (inside the '
        'block, shifted, reaching past the used range) and whole-column areas x prefix {none, unquoted, quoted} x target sheet '
        '{own, second, third} x title sets (identifier, with space, cell-like, Cyrillic, digits, dotted, apostrophe; sheet '
        'orders permuted) x $-spellings (all 4 / all 16, rotated over the areas) x function positions (bare operand - order '
        'observed directly -, SUM, COUNT, MIN, MAX, INDEX every (r,c), MATCH, VLOOKUP, SUMIF range and sum-range, SUMIFS, '
        'COUNTIFS, AVERAGEIFS, COLUMN); single cells at every column 1..16384 (boundary set in quick) and the row set; missing '
        'sheet titles must not evaluate.  non-trivial = reference that is prefixed, $-marked, multi-letter column, not '
        'anchored at A1, or whole-column')
ASSUMPTIONS = ['reversed corners (B2:A1) are not enumerated (Excel never stores them)',
               'titles containing ! are outside the alphabet (the matrix pattern excludes them; statement: titles the grammar accepts)']

TITLE_SETS = {
    'plain': ['S', 'Sheet2', 'My Sheet'],
    'permuted': ['My Sheet', 'S', 'Sheet2'],
    'odd': ['A1', 'Лист1', '2020'],
    'punct': ['a.b', "It's", 'x y.z'],
    # apostrophes at the edges of a title (spelled doubled inside the quotes) next to the sheets they would collapse to
    'edge-apostrophe': ["Plan'", 'Plan', "'Plan"],
    'look-alikes': ['S 1', 'S1', 'S  1'],
    # a title that holds the absolute-reference marker next to the same title without it; a title of digits
    'dollar': ['US$', 'US', '$'],
    'digits': ['7', '0', '2'],
}
UNQUOTED_OK = {'S', 'Sheet2', 'Лист1'}
N = 8  # planted block


def val(s, c, r):
    return (s + 1) * 10 ** 6 + c * 10 ** 3 + r


def cl(n):
    s = ''
    while n:
        n, r = divmod(n - 1, 26)
        s = chr(65 + r) + s
    return s


def cn_(letters):
    n = 0
    for ch in letters:
        n = n * 26 + ord(ch) - 64
    return n


def planted(s, c, r, rows_in_sheet=N):
    """value at 1-based (c, r) of sheet s, None = blank"""
    return val(s, c, r) if 1 <= c <= N and 1 <= r <= N else None


DOLLAR_CELL = [('', ''), ('$', ''), ('', '$'), ('$', '$')]


def spell_cell(c, r, d):
    return f'{d[0]}{cl(c)}{d[1]}{r}'


def prefix(title, how):
    if how == 'none':
        return ''
    if how == 'unq':
        return title + '!'
    return "'" + title.replace("'", "''") + "'!"


def areas():
    out = []
    for off in ((0, 0), (2, 1), (6, 6)):
        for c1 in range(1, 5):
            for c2 in range(c1, 5):
                for r1 in range(1, 5):
                    for r2 in range(r1, 5):
                        out.append((off[0] + c1, off[1] + r1, off[0] + c2, off[1] + r2))
    return out


def gen_area_cases(tier):
    ar = areas()
    dollars16 = list(itertools.product(['', '$'], repeat=4))
    k = 0
    for tset in TITLE_SETS:
        titles = TITLE_SETS[tset]
        for ai, a in enumerate(ar):
            if tier != 'thorough' and tset != 'plain' and ai % 5:
                continue
            for target in range(3):
                for how in ('none', 'unq', 'q'):
                    if how == 'none' and target != 0:
                        continue
                    if how == 'unq' and titles[target] not in UNQUOTED_OK:
                        continue
                    k += 1
                    ds = [dollars16[(ai + k) % 16]] if not (a in ((1, 1, 3, 2), (3, 2, 4, 4)) and tset == 'plain') else dollars16
                    for d in ds:
                        yield {'kind': 'area', 'tset': tset, 'target': target, 'how': how, 'a': list(a), 'd': list(d)}


def gen_cell_cases(tier):
    for tset in TITLE_SETS:
        titles = TITLE_SETS[tset]
        for target in range(3):
            for how in ('none', 'unq', 'q'):
                if how == 'none' and target != 0 or how == 'unq' and titles[target] not in UNQUOTED_OK:
                    continue
                for c, r in ((1, 1), (2, 3), (8, 8), (9, 2), (3, 9)):
                    for d in DOLLAR_CELL:
                        yield {'kind': 'cell', 'tset': tset, 'target': target, 'how': how, 'c': c, 'r': r, 'd': list(d)}


def gen_wholecol_cases(tier):
    for tset in TITLE_SETS:
        titles = TITLE_SETS[tset]
        for target in range(3):
            for how in ('none', 'unq', 'q'):
                if how == 'none' and target != 0 or how == 'unq' and titles[target] not in UNQUOTED_OK:
                    continue
                for c1, c2 in ((1, 1), (2, 2), (1, 3), (2, 4), (8, 9), (1, 2)):
                    for d in (('', ''), ('$', '$'), ('$', '')):
                        yield {'kind': 'wholecol', 'tset': tset, 'target': target, 'how': how, 'c1': c1, 'c2': c2, 'd': list(d)}


def gen_missing():
    for tset in ('plain', 'odd'):
        # digits that name no sheet but would be valid positions of one (0, 1, 2); titles that differ from an existing one
        # in letter case only are left out (Excel takes them for the same sheet: resolving them to it would be no error)
        for t in ('Nope', 'S2', 'My Sheet2', 'Sheet', '0', '1', '2', '01'):
            for how in ('unq', 'q'):
                if how == 'unq' and (' ' in t or t.isdigit()):
                    continue
                for ref in ('B2', 'A1:B2', 'A:A'):
                    yield {'kind': 'missing', 'tset': tset, 'title': t, 'how': how, 'ref': ref}


def plan(tier, seed):
    phases = [{'name': 'areas', 'cases': gen_area_cases(tier), 'runner': 'run_refs', 'chunk': 40},
              {'name': 'cells', 'cases': gen_cell_cases(tier), 'runner': 'run_refs', 'chunk': 60},
              {'name': 'whole-columns', 'cases': gen_wholecol_cases(tier), 'runner': 'run_refs', 'chunk': 30},
              {'name': 'missing-title', 'cases': gen_missing(), 'runner': 'run_missing', 'chunk': 20}]
    phases.append({'name': 'own-sheet', 'cases': [{'tset': t, 'variant': v} for t in TITLE_SETS for v in range(3)],
                   'runner': 'run_own_sheet', 'chunk': 2})
    if tier == 'thorough':
        cols = list(range(1, 16385))
    else:
        cols = list(range(1, 61)) + list(range(650, 761)) + list(range(16380, 16385)) + [18278 % 16384, 1378, 1379, 2000]
        # columns whose letters are the name of a supported function (IF5 is a cell, not a call)
        cols += sorted({cn_(k) for k in ('AND', 'DAY', 'IF', 'MAX', 'MID', 'MIN', 'OR', 'SUM', 'IFS')} - set(cols))
    phases.append({'name': 'every-column', 'cases': [{'cols': cols[i:i + 1024]} for i in range(0, len(cols), 1024)],
                   'runner': 'run_columns', 'chunk': 1, 'samples': 1})
    rows = list(range(1, 31)) + [99, 100, 101, 999, 1000, 1001, 9999, 10000]
    phases.append({'name': 'rows', 'cases': [{'rows': rows, 'mode': 'file'}], 'runner': 'run_rows', 'chunk': 1})
    # sheets without any cell at every position among the data sheets (indices of titles and of data must stay in step)
    # ... and chart sheets (tabs without cells that are no worksheets at all): C
    phases.append({'name': 'empty-sheets-between', 'cases': [{'layout': list(l)} for l in
                                                             itertools.product('DEC', repeat=4) if l.count('D') >= 2 and l[0] != 'C'
                                                             or l in (tuple('CDDE'), tuple('CDCD'))],
                   'runner': 'run_empty_between', 'chunk': 2})
    # "the current value(s)": the referenced cells get new values through Executor.set_cells (0, 0.0, FALSE and the empty text
    # included - the values an `or` default swallows), one or two cells at a time
    phases.append({'name': 'current-values', 'cases': list(gen_current()), 'runner': 'run_current', 'chunk': 40})
    if tier == 'thorough':
        phases.append({'name': 'far-rows', 'cases': [{'rows': [65536, 99999, 1048576], 'mode': 'entry'}], 'runner': 'run_rows',
                       'chunk': 1})
    return phases


# ---------------------------------------------------------------------------------------------

def expand(case):
    """-> list of (formula text with @ rows, expected python value or ('ERR',), position name)"""
    titles = TITLE_SETS[case['tset']]
    s = case['target']
    pre = prefix(titles[s], case['how'])
    out = []
    if case['kind'] == 'cell':
        c, r, d = case['c'], case['r'], case['d']
        ref = pre + spell_cell(c, r, d)
        v = planted(s, c, r)
        out.append(('=' + ref, v, 'bare'))
        out.append((f'=SUM({ref},0)', v or 0, 'SUM'))
        out.append((f'={ref}+0', v or 0, 'arith'))
        out.append((f'=COLUMN({ref})', c, 'COLUMN'))
        out.append((f'=IF({ref}>0,{ref},-1)', v if v else -1, 'IF'))
        # a single cell as the sum range of SUMIF: the top-left anchor of a range shaped like the criteria range
        out.append((f'=SUMIF($A$1:$A$2,">0",{ref})', (v or 0) + (planted(s, c, r + 1) or 0), 'SUMIF-anchor'))
        return out
    if case['kind'] == 'area':
        c1, r1, c2, r2 = case['a']
        d = case['d']
        ref = pre + f'{d[0]}{cl(c1)}{d[1]}{r1}:{d[2]}{cl(c2)}{d[3]}{r2}'
        rows = [[planted(s, c, r) for c in range(c1, c2 + 1)] for r in range(r1, r2 + 1)]
    else:
        c1, c2, d = case['c1'], case['c2'], case['d']
        ref = pre + f'{d[0]}{cl(c1)}:{d[1]}{cl(c2)}'
        nrows = '@ROWS' if s == 0 else N
        rows = ('WHOLE', s, c1, c2, nrows)
    return [(ref, rows)]


def area_positions(ref, rows, s, other_pre):
    """formulas over an explicit rows matrix"""
    flat = [v for row in rows for v in row]
    nums = [v for v in flat if v is not None]
    nr, nc = len(rows), len(rows[0])
    out = [('=' + ref, rows, 'bare'),
           (f'=SUM({ref})', sum(nums), 'SUM'), (f'=COUNT({ref})', len(nums), 'COUNT')]
    if nums:
        out.append((f'=MIN({ref})', min(nums), 'MIN'))
        out.append((f'=MAX({ref},1)', max(nums), 'MAX'))
    if nr > 1 and nc > 1:
        for r in range(1, nr + 1):
            for c in range(1, nc + 1):
                out.append((f'=INDEX({ref},{r},{c})', rows[r - 1][c - 1], 'INDEX'))
    elif nr * nc > 1:
        for k in range(1, nr * nc + 1):
            out.append((f'=INDEX({ref},{k})', flat[k - 1], 'INDEX'))
    if nc == 1 and nums:
        for k in sorted({0, nr - 1}):
            if flat[k] is not None:
                out.append((f'=MATCH({flat[k]},{ref},0)', k + 1, 'MATCH'))
        out.append((f'=COLUMN({ref})', None, 'COLUMN'))  # expected filled by caller
    if nums:
        for k in sorted({0, nr - 1}):
            if rows[k][0] is not None:
                out.append((f'=VLOOKUP({rows[k][0]},{ref},{nc},0)', rows[k][nc - 1], 'VLOOKUP'))
    out.append((f'=SUMIF({ref},">0")', sum(nums), 'SUMIF'))
    out.append((f'=SUMIFS({ref},{ref},">0")', sum(nums), 'SUMIFS'))
    out.append((f'=COUNTIFS({ref},">0")', len(nums), 'COUNTIFS'))
    if nums:
        out.append((f'=AVERAGEIFS({ref},{ref},">{nums[0] - 1}")', None, 'AVERAGEIFS'))
    return out


def is_nontrivial(case):
    if case['kind'] == 'wholecol' or case['how'] != 'none' or any(case.get('d', [])):
        return True
    if case['kind'] == 'cell':
        return (case['c'], case['r']) != (1, 1)
    return case['a'][:2] != [1, 1]


def same(exp, out):
    k, v = out
    if k != 'VALUE':
        return False
    return _eq(exp, v)


def _eq(exp, v):
    if isinstance(exp, list):
        return isinstance(v, list) and len(v) == len(exp) and all(_eq(a, b) for a, b in zip(exp, v))
    if exp is None:
        return D.is_blank(v)
    if D.is_blank(v) or isinstance(v, bool):
        return False
    return isinstance(v, (int, float)) and v == exp


def run_refs(cases, stats):
    vio = []
    by_tset = {}
    for i, c in enumerate(cases):
        by_tset.setdefault(c['tset'], []).append(i)
    for tset, idxs in by_tset.items():
        titles = TITLE_SETS[tset]
        base = {f'{cl(c)}{r}': val(0, c, r) for c in range(1, N + 1) for r in range(1, N + 1)}
        extra = [(titles[s], {f'{cl(c)}{r}': val(s, c, r) for c in range(1, N + 1) for r in range(1, N + 1)}) for s in (1, 2)]
        items, meta = [], []
        for i in idxs:
            c = cases[i]
            ex = expand(c)
            if c['kind'] == 'cell':
                forms = ex
            else:
                ref, rows = ex[0]
                if isinstance(rows, tuple):
                    forms = [('WHOLE', ref, rows)]
                else:
                    forms = area_positions(ref, rows, c['target'], None)
                    forms = [(f, (c['a'][0] if pos == 'COLUMN' else e), pos) for f, e, pos in forms]
                    forms = [(f, (sum(v for row in rows for v in row if v is not None and v > rows_first(rows) - 1) /
                                  max(1, len([v for row in rows for v in row if v is not None and v > rows_first(rows) - 1]))
                                  if pos == 'AVERAGEIFS' else e), pos) for f, e, pos in forms]
            for f in forms:
                if f[0] == 'WHOLE':
                    items.append({'f': {'Z@0': '=' + f[1]}})
                    meta.append((i, 'bare', f[2], '=' + f[1]))
                    for pos, tpl in (('SUM', '=SUM({r})'), ('COUNT', '=COUNT({r})'), ('SUMIF', '=SUMIF({r},">0")'),
                                     ('COUNTIFS', '=COUNTIFS({r},">0")'), ('INDEX', '=INDEX({r},2,{nc})'),
                                     ('INDEX', '=INDEX({r},8,1)'), ('MATCHV', None), ('VLOOKUPV', None)):
                        _, s, c1, c2, nrows = f[2]
                        nc = c2 - c1 + 1
                        if pos == 'MATCHV':
                            if nc != 1 or planted(s, c1, 3) is None:
                                continue
                            text = f'=MATCH({planted(s, c1, 3)},{f[1]},0)'
                        elif pos == 'VLOOKUPV':
                            if planted(s, c1, 5) is None:
                                continue
                            text = f'=VLOOKUP({planted(s, c1, 5)},{f[1]},{nc},0)'
                        else:
                            if pos == 'INDEX' and nc == 1 and '2,' in tpl:
                                continue
                            text = tpl.format(r=f[1], nc=nc)
                        items.append({'f': {'Z@0': text}})
                        meta.append((i, pos, f[2], text))
                else:
                    items.append({'f': {'Z@0': f[0]}})
                    meta.append((i, f[2], f[1], f[0]))
        first_row = N + 2
        comps = D.compile_items(items, extra_sheets=extra, stats=stats, sheet=titles[0], first_row=first_row, base_cells=base,
                                batch=150)
        # number of rows of sheet 0 in each batch (formula rows extend the sheet): needed for whole-column expectations
        for bi in range(0, len(items), 150):
            nb = min(150, len(items) - bi)
            rows_total = first_row + nb - 1
            for j in range(bi, bi + nb):
                i, pos, exp, text = meta[j]
                c = cases[i]
                comp = comps[j]
                if comp[0] != 'OK':
                    # the batch was bisected: the sheet is shorter; recompute from the item's own base row
                    rows_total = None
                out = D.eval_compiled(comp, items[j], None, stats, sheet=titles[0])['Z@0']
                stats['validated'] += 1
                stats['out:' + (out[0] if out[0] != 'VALUE' else type(out[1]).__name__)] += 1
                if isinstance(exp, tuple) and exp[0] == 'WHOLE':
                    _, s, c1, c2, nrows = exp
                    if nrows == '@ROWS':
                        if out[0] == 'VALUE' and isinstance(out[1], list) and pos == 'bare':
                            nrows = len(out[1]) if len(out[1]) >= N else N  # length judged separately below
                        else:
                            nrows = N
                    rows = [[planted(s, cc, rr) for cc in range(c1, c2 + 1)] for rr in range(1, nrows + 1)]
                    nums = [v for row in rows for v in row if v is not None]
                    e = {'bare': rows, 'SUM': sum(nums), 'COUNT': len(nums), 'SUMIF': sum(nums), 'COUNTIFS': len(nums),
                         'MATCHV': 3, 'VLOOKUPV': planted(s, c2, 5)}.get(pos)
                    if pos == 'INDEX':
                        e = planted(s, c1, 8) if text.endswith(',8,1)') else planted(s, c2, 2)
                    exp = e
                ok = same(exp, out)
                if ok and pos == 'bare' and c['kind'] == 'wholecol' and c['target'] == 0 and comp[0] == 'OK':
                    # own sheet: every stored row must be present (at least the planted block plus this formula's row)
                    ok = len(out[1]) >= comp[2]
                if not ok:
                    desc = {'kind': c['kind'], 'tset': c['tset'], 'title': titles[c['target']], 'how': c['how'], 'position': pos,
                            'dollar': ''.join(x or '-' for x in c.get('d', [])), 'target': c['target'],
                            'outcome': out[0] if out[0] != 'VALUE' else 'VALUE_MISMATCH'}
                    if c['kind'] == 'wholecol':
                        desc['multi_column'] = c['c1'] != c['c2']
                    vio.append({'i': i, 'desc': desc, 'expected': D.enc(exp),
                                'observed': [text, D.enc(out[1]) if out[0] == 'VALUE' else list(out)]})
    for c in cases:
        if is_nontrivial(c):
            stats['nontrivial'] += 1
    # one violation per (case, position) is enough
    return vio


def rows_first(rows):
    for row in rows:
        for v in row:
            if v is not None:
                return v
    return 0


def run_missing(cases, stats):
    vio = []
    for i, c in enumerate(cases):
        titles = TITLE_SETS[c['tset']]
        ref = prefix(c['title'], c['how']) + c['ref']
        sheets = [(t, {f'{cl(cc)}{r}': val(s, cc, r) for cc in range(1, 4) for r in range(1, 4)}) for s, t in enumerate(titles)]
        for form in ('=' + ref, f'=SUM({ref})'):
            sheets[0][1]['Z9'] = form
            kind, text = D.translate(sheets)
            stats['transitions'] += 1
            stats['validated'] += 1
            stats['nontrivial'] += 1
            out = (kind, text)
            if kind == 'TEXT':
                k2, cls, _ = D.load_class(text)
                if k2 == 'CLASS':
                    out = D.eval_cell(D.new_executor(cls), 0, 25, 8)
                else:
                    out = (k2, cls)
            stats['out:' + out[0]] += 1
            if out[0] == 'VALUE':
                vio.append({'i': i, 'desc': {'kind': 'missing', 'how': c['how'], 'position': 'bare' if form[1] != 'S' else 'SUM',
                                             'outcome': 'RESOLVED_TO_OTHER_SHEET'}, 'expected': 'rejected',
                            'observed': [form, D.enc(out[1])]})
    return vio


OWN_FORMS = [
    [('=B2', lambda s: val(s, 2, 2)), ('=SUM(A1:B2)', lambda s: sum(val(s, c, r) for c in (1, 2) for r in (1, 2))),
     ('=$C$3+1', lambda s: val(s, 3, 3) + 1), ('=INDEX(A1:C3,2,3)', lambda s: val(s, 3, 2)),
     ('=SUM(D:D)', lambda s: sum(val(s, 4, r) for r in range(1, N + 1))), ('=VLOOKUP(A2,A1:C3,3,0)', lambda s: val(s, 3, 2))],
    [('=H8', lambda s: val(s, 8, 8)), ('=A1', lambda s: val(s, 1, 1)), ('=MAX(B1:B4,1)', lambda s: val(s, 2, 4)),
     ('=SUMIF(A1:A3,">0",B1:B3)', lambda s: sum(val(s, 2, r) for r in (1, 2, 3))),
     ('=COUNTIFS(C1:C5,">0")', lambda s: 5), ('=MATCH(A3,A1:A5,0)', lambda s: 3)],
    [('=A1+B1', lambda s: val(s, 1, 1) + val(s, 2, 1)), ('=IF(A1>0,C1,0)', lambda s: val(s, 3, 1)),
     ('=MIN(A:A)', lambda s: val(s, 1, 1)), ('=SUMIFS(A1:A4,B1:B4,">0")', lambda s: sum(val(s, 1, r) for r in range(1, 5))),
     ('=AVERAGE(E5:E5)', lambda s: val(s, 5, 5)), ('=COLUMN(C1)+A1', lambda s: 3 + val(s, 1, 1))],
]


def run_own_sheet(cases, stats):
    """the same unprefixed formula texts at the same addresses on all three sheets: each denotes its own sheet"""
    vio = []
    for i, c in enumerate(cases):
        titles = TITLE_SETS[c['tset']]
        forms = OWN_FORMS[c['variant']]
        sheets = []
        for s, t in enumerate(titles):
            cells = {f'{cl(cc)}{r}': val(s, cc, r) for cc in range(1, N + 1) for r in range(1, N + 1)}
            for j, (f, _) in enumerate(forms):
                cells[f'Z{j + 1}'] = f
            sheets.append((t, cells))
        bio = D.build_xlsx(sheets)
        for mode in ('file', 'entry'):
            for s in ((0, 1, 2) if mode == 'file' else (1, 2)):
                for j, (f, e) in enumerate(forms):
                    if mode == 'entry' and j % 2:
                        continue
                    if mode == 'file' and (s, j) != (0, 0):
                        pass
                    if mode == 'file':
                        if (s, j) == (0, 0):
                            kind, text = D.translate(bio)
                            stats['transitions'] += 1
                            assert kind == 'TEXT', (kind, text)
                            k2, cls, _ = D.load_class(text)
                            assert k2 == 'CLASS'
                            exf = D.new_executor(cls)
                        out = D.eval_cell(exf, s, 25, j)
                    else:
                        kind, text = D.translate(bio, entry=(titles[s], 'Z', str(j + 1)))
                        stats['transitions'] += 1
                        if kind != 'TEXT':
                            out = (kind, text)
                        else:
                            k2, cls, _ = D.load_class(text)
                            out = D.eval_cell(D.new_executor(cls), s, 25, j) if k2 == 'CLASS' else (k2, cls)
                    stats['validated'] += 1
                    stats['nontrivial'] += 1
                    if not same(e(s), out):
                        vio.append({'i': i, 'desc': {'kind': 'own_sheet', 'tset': c['tset'], 'mode': mode, 'target': s,
                                                     'outcome': out[0] if out[0] != 'VALUE' else 'VALUE_MISMATCH'},
                                    'expected': e(s), 'observed': [f, titles[s], D.enc(out[1]) if out[0] == 'VALUE' else list(out)]})
    return vio


def run_columns(cases, stats):
    """single cells at many columns of row 1 and row 2 (row 2 holds the referencing formulas on another sheet)"""
    vio = []
    for i, c in enumerate(cases):
        cols = c['cols']
        data = {f'{cl(k)}1': val(0, k % 1000, 1) + k * 10 ** 7 for k in cols}
        forms = {}
        for j, k in enumerate(cols):
            d = DOLLAR_CELL[k % 4]
            forms[f'A{j + 1}'] = f"=D!{d[0]}{cl(k)}{d[1]}1"
            forms[f'B{j + 1}'] = f"=SUM('D'!{cl(k)}1:{cl(k)}1)"
            forms[f'C{j + 1}'] = f"=COLUMN(D!{cl(k)}1)"
        for k in cols:
            data[f'{cl(k)}2'] = f'={cl(k)}1'      # the bare, relative spelling on the cell's own sheet (IF1, SUM1, ...)
        kind, text = D.translate([('D', data), ('F', forms)], budget=300)
        stats['transitions'] += 1
        cls = None
        if kind == 'TEXT':
            k2, cls, _ = D.load_class(text)
            if k2 != 'CLASS':
                kind, text = k2, cls
        if kind != 'TEXT':
            vio.append({'i': i, 'desc': {'kind': 'column', 'position': 'workbook', 'outcome': kind}, 'expected': 'translates',
                        'observed': [cl(cols[0]) + '..' + cl(cols[-1]), str(text)[:300]]})
            continue
        ex = D.new_executor(cls)
        for j, k in enumerate(cols):
            exp = data[f'{cl(k)}1']
            for col, e in (('A', exp), ('B', exp), ('C', k), ('own', exp)):
                out = D.eval_cell(ex, 'F', col, str(j + 1)) if col != 'own' else D.eval_cell(ex, 'D', cl(k), '2')
                stats['validated'] += 1
                stats['evaluations'] += 1
                if k > 26:
                    stats['nontrivial'] += 1
                if not same(e, out):
                    vio.append({'i': i, 'desc': {'kind': 'column', 'letters': len(cl(k)), 'position': {'A': 'bare', 'B': 'SUM',
                                                                                                   'C': 'COLUMN', 'own': 'bare-own-sheet'}[col],
                                                 'outcome': out[0] if out[0] != 'VALUE' else 'VALUE_MISMATCH'},
                                'expected': e, 'observed': [cl(k), D.enc(out[1]) if out[0] == 'VALUE' else list(out)]})
                    break
            if len(vio) > 20:
                break
    return vio


def run_rows(cases, stats):
    vio = []
    for i, c in enumerate(cases):
        rows = c['rows']
        data = {f'B{r}': r * 7 + 1 for r in rows}
        forms = {}
        for j, r in enumerate(rows):
            forms[f'A{j + 1}'] = f'=R!B{r}'
            forms[f'B{j + 1}'] = f'=SUM(R!$B${r}:$B${r},R!A{r})'
        sheets = [('R', data), ('F', forms)]
        if c['mode'] == 'file':
            kind, text = D.translate(sheets, budget=600)
            stats['transitions'] += 1
            assert kind == 'TEXT', (kind, text)
            k2, cls, _ = D.load_class(text)
            assert k2 == 'CLASS'
            exs = {None: D.new_executor(cls)}
        bio = D.build_xlsx(sheets) if c['mode'] == 'entry' else None
        for j, r in enumerate(rows):
            for col in ('A', 'B'):
                if c['mode'] == 'entry':
                    kind, text = D.translate(bio, entry=('F', col, str(j + 1)), budget=600)
                    stats['transitions'] += 1
                    if kind != 'TEXT':
                        out = (kind, text)
                    else:
                        k2, cls, _ = D.load_class(text)
                        out = D.eval_cell(D.new_executor(cls), 'F', col, str(j + 1)) if k2 == 'CLASS' else (k2, cls)
                else:
                    out = D.eval_cell(exs[None], 'F', col, str(j + 1))
                stats['validated'] += 1
                stats['nontrivial'] += 1
                if not same(r * 7 + 1, out):
                    vio.append({'i': i, 'desc': {'kind': 'row', 'digits': len(str(r)), 'position': 'bare' if col == 'A' else 'SUM',
                                                 'outcome': out[0] if out[0] != 'VALUE' else 'VALUE_MISMATCH'},
                                'expected': r * 7 + 1, 'observed': [r, D.enc(out[1]) if out[0] == 'VALUE' else list(out)]})
    return vio


CUR_VALUES = [0, 0.0, False, '', 7, -2.5, True, 'txt']
CUR_TARGETS = [('S', 'A1'), ('S', 'B2'), ('O t', 'A1'), ('O t', 'C3'), ('S', 'F1')]      # F1 holds a formula (=A1*2)
CUR_REFS = {   # reader cell on sheet S -> (formula, the cells it denotes in row-major order)
    'J1': ('=A1', [('S', 'A1')]), 'J2': ('=$B$2', [('S', 'B2')]), 'J3': ("='O t'!A1", [('O t', 'A1')]),
    'J4': ("='O t'!$C3", [('O t', 'C3')]), 'J5': ('=F1', [('S', 'F1')]),
    'J6': ('=INDEX(A1:B2,2,2)', [('S', 'B2')]), 'J7': ("=INDEX('O t'!A:C,3,3)", [('O t', 'C3')]),
    'J8': ('=INDEX(F:F,1)', [('S', 'F1')]),
}
CUR_PLANT = {('S', 'A1'): 11, ('S', 'B2'): 'old', ('O t', 'A1'): True, ('O t', 'C3'): 44.5, ('S', 'B1'): 12, ('S', 'A2'): 21}


def cur_scaffold():
    s = {a: v for (t, a), v in CUR_PLANT.items() if t == 'S'}
    s['F1'] = '=A1*2'
    for a, (f, _) in CUR_REFS.items():
        s[a] = f
    o = {a: v for (t, a), v in CUR_PLANT.items() if t == 'O t'}
    return [('S', s), ('O t', o)]


def gen_current():
    for ti, t in enumerate(CUR_TARGETS):
        for v in range(len(CUR_VALUES)):
            yield {'ov': [[ti, v]]}
    for (t1, t2) in itertools.combinations(range(len(CUR_TARGETS)), 2):
        for v1, v2 in itertools.product(range(4), repeat=2):      # pairs of falsy values
            yield {'ov': [[t1, v1], [t2, v2]]}


def run_current(cases, stats):
    from mc import sweep as SW
    cls = SW.get_class(cur_scaffold(), stats=stats)
    vio = []
    readers = list(CUR_REFS)
    for i, c in enumerate(cases):
        cur = dict(CUR_PLANT)
        ov = []
        for ti, vi in c['ov']:
            cur[CUR_TARGETS[ti]] = CUR_VALUES[vi]
            ov.append((CUR_TARGETS[ti], CUR_VALUES[vi]))
        outs = SW.run(cls, ov, readers, stats)
        for a, o in zip(readers, outs):
            (t, addr), = CUR_REFS[a][1]
            if (t, addr) == ('S', 'F1') and ('S', 'F1') not in [x for x, _ in ov]:
                a1 = cur[('S', 'A1')]
                if isinstance(a1, str):
                    continue      # text * 2: C01's business
                want = a1 * 2
            else:
                want = cur[(t, addr)]
            stats['validated'] += 1
            stats['nontrivial'] += 1
            ok = o[0] == 'VALUE' and type(o[1]) is type(want) and o[1] == want
            if not ok:
                vio.append({'i': i, 'desc': {'position': 'current-value', 'reader': CUR_REFS[a][0], 'falsy': not want,
                                             'outcome': 'VALUE_MISMATCH' if o[0] == 'VALUE' else o[0]},
                            'expected': D.enc(want), 'observed': [D.enc(o[1]) if o[0] == 'VALUE' else list(o)]})
                break
    return vio


def translate_with_order(sheets, titles):
    """build the workbook, then put the sheets into the order of `titles` (a chart sheet can come first that way)"""
    import io
    from openpyxl import load_workbook
    wb = load_workbook(D.build_xlsx(sheets))
    wb._sheets.sort(key=lambda sh: titles.index(sh.title))
    bio = io.BytesIO()
    wb.save(bio)
    bio.seek(0)
    return D.translate(bio)


def run_empty_between(cases, stats):
    """layout: a string over D (data sheet) / E (sheet without cells); every data sheet holds the planted block and, in
    column J, references to every data sheet (prefixed) and to itself (bare)."""
    vio = []
    for i, c in enumerate(cases):
        lay = c['layout']
        titles = [f'T{j}' if k == 'D' else (f'E {j}' if k == 'E' else f'Chart{j}') for j, k in enumerate(lay)]
        data = [j for j, k in enumerate(lay) if k == 'D']
        sheets = []
        expect = {}
        for j, k in enumerate(lay):
            cells = {}
            if k == 'D':
                cells = {f'{cl(cc)}{r}': val(j, cc, r) for cc in range(1, 4) for r in range(1, 4)}
                row = 1
                for t in data:
                    q = "'" + titles[t] + "'"
                    cells[f'J{row}'] = f'={q}!B2'
                    expect[(j, 'J', row)] = val(t, 2, 2)
                    cells[f'K{row}'] = f'=SUM({q}!A1:C3)'
                    expect[(j, 'K', row)] = sum(val(t, cc, r) for cc in range(1, 4) for r in range(1, 4))
                    cells[f'L{row}'] = f'=SUM({q}!A:A)'
                    expect[(j, 'L', row)] = sum(val(t, 1, r) for r in range(1, 4))
                    row += 1
                cells['M1'] = '=B2'
                expect[(j, 'M', 1)] = val(j, 2, 2)
                cells['M2'] = '=SUM(A1:C3)'
                expect[(j, 'M', 2)] = sum(val(j, cc, r) for cc in range(1, 4) for r in range(1, 4))
                for e in [t for t, kk in enumerate(lay) if kk == 'E']:
                    cells[f'N{e + 1}'] = f"='{titles[e]}'!A1"
                    expect[(j, 'N', e + 1)] = None
            sheets.append((titles[j], cells if k != 'C' else D.CHART_SHEET))
        if lay[0] == 'C':
            sheets.insert(0, sheets.pop(1))      # the chart needs a worksheet to be created first; it is moved in front below
        kind, text = translate_with_order(sheets, titles) if lay[0] == 'C' else D.translate(sheets)
        stats['transitions'] += 1
        cls = None
        if kind == 'TEXT':
            k2, cls, _ = D.load_class(text)
            if k2 != 'CLASS':
                kind, text = k2, cls
        if kind != 'TEXT':
            vio.append({'i': i, 'desc': {'position': 'empty-sheets', 'layout': ''.join(lay), 'outcome': kind}, 'expected': 'translates',
                        'observed': str(text)[:200]})
            continue
        ex = D.new_executor(cls)
        for (j, col, row), want in expect.items():
            o = D.eval_cell(ex, titles[j], col, str(row))
            stats['evaluations'] += 1
            stats['validated'] += 1
            stats['nontrivial'] += 1
            ok = (o[0] == 'VALUE' and D.is_blank(o[1])) if want is None else (o[0] == 'VALUE' and o[1] == want and not D.is_blank(o[1]))
            if not ok:
                vio.append({'i': i, 'desc': {'position': 'empty-sheets', 'layout': ''.join(lay), 'column': col,
                                             'outcome': 'VALUE_MISMATCH' if o[0] == 'VALUE' else o[0]},
                            'expected': want, 'observed': [titles[j], col, row, D.enc(o[1]) if o[0] == 'VALUE' else list(o)]})
                break
    return vio
