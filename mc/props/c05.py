"""C05 - a formula is translated whole or rejected, never silently truncated.  BE over token sequences and edits."""
import itertools
import re

from mc import driver as D, corpus
from mc.ref import formula as R

PROP = 'C05'
RULE = ('ALL token sequences up to the length bound over the 14-token alphabet {1 A1 "s" + - * = < & % ( ) , SUM(} joined '
        'without and with blanks (parse decision through the library\'s real lexer/parser/translator on the cell text; every '
        'accepted text is then compiled and evaluated through the full pipeline); every single-token insertion / deletion / '
        'duplication at every position of every corpus formula (one call of every supported function + operator skeletons); '
        'every function x every arity 0..max+2 with and without a trailing separator; blank / tab / newline at every single '
        'token boundary and at all at once; every subset of the , separators replaced by ; (uniform and mixed).  Oracle: the independent reference grammar (valid / '
        'invalid, value).  non-trivial = text the reference grammar rejects, or a whitespace/separator variant')
ASSUMPTIONS = ['rejecting a text the reference accepts is allowed by the statement (only the parser exception may be raised)',
               'arity table written by hand from the Excel function reference (+ ROUNDUP/ROUNDDOWN with an omitted digit '
               'count and COUNTBLANK with several areas, which the project\'s own fixtures pin)',
               'whitespace between a function name and its opening bracket is judged like every other token boundary (same outcome as without it)']

TOK = ['1', 'A1', '"s"', '+', '-', '*', '=', '<', '&', '%', '(', ')', ',', 'SUM(']
TOK_SMALL = ['1', 'A1', '+', '-', '=', '%', '(', ')', ',', 'SUM(']

ARITY = {  # function -> predicate on the number of arguments
    'ADDRESS': lambda n: 2 <= n <= 5, 'AND': lambda n: n >= 1, 'OR': lambda n: n >= 1, 'AVERAGE': lambda n: n >= 1,
    'AVERAGEIFS': lambda n: n >= 3 and n % 2 == 1, 'COLUMN': lambda n: n <= 1, 'COUNT': lambda n: n >= 1,
    'COUNTBLANK': lambda n: n >= 1, 'COUNTIFS': lambda n: n >= 2 and n % 2 == 0, 'CONCATENATE': lambda n: n >= 1,
    'DAY': lambda n: n == 1, 'MONTH': lambda n: n == 1, 'YEAR': lambda n: n == 1, 'DATE': lambda n: n == 3,
    'DATEDIF': lambda n: n == 3, 'EDATE': lambda n: n == 2, 'EOMONTH': lambda n: n == 2, 'IF': lambda n: n in (2, 3),
    'IFERROR': lambda n: n == 2, 'IFS': lambda n: n >= 2 and n % 2 == 0, 'INDEX': lambda n: 2 <= n <= 4,
    'LEFT': lambda n: n in (1, 2), 'RIGHT': lambda n: n in (1, 2), 'MID': lambda n: n == 3, 'MATCH': lambda n: n in (2, 3),
    'XMATCH': lambda n: 2 <= n <= 4, 'MAX': lambda n: n >= 1, 'MIN': lambda n: n >= 1, 'NETWORKDAYS': lambda n: n in (2, 3),
    'ROUND': lambda n: n == 2, 'ROUNDUP': lambda n: n in (1, 2), 'ROUNDDOWN': lambda n: n in (1, 2),
    'SEARCH': lambda n: n in (2, 3), 'SUM': lambda n: n >= 1, 'SUMIF': lambda n: n in (2, 3),
    'SUMIFS': lambda n: n >= 3 and n % 2 == 1, 'TODAY': lambda n: n == 0, 'VLOOKUP': lambda n: n in (3, 4),
    'TEXT': lambda n: n == 2, 'VALUE': lambda n: n == 1,
}
TRAILING_SEP_OK = {'ROUNDUP': 1, 'ROUNDDOWN': 1}  # FUNC(x,) = digit count omitted
ARGS = {  # argument texts by position (over the corpus data block)
    'ADDRESS': ['2', '3', '4', 'TRUE', '"D"', '1', '1'], 'AVERAGEIFS': ['A1:A3', 'B1:B3', '">4"', 'A1:A3', '"<3"', 'B1:B3', '">0"'],
    'COLUMN': ['B1', 'C1', 'D1'], 'COUNT': ['A1:B3', 'A1', '2', '3'], 'COUNTBLANK': ['A1:C3', 'A1:A2', 'B1:B2'],
    'COUNTIFS': ['A1:A3', '">1"', 'B1:B3', '"<6"', 'A1:A3', '">0"'], 'DAY': ['D1', 'D2', 'D3'], 'MONTH': ['D1', 'D2', 'D3'],
    'YEAR': ['D1', 'D2', 'D3'], 'DATE': ['2020', 'A2', 'B1', '1', '1'], 'DATEDIF': ['D1', 'D2', '"D"', '1', '1'],
    'EDATE': ['D1', 'A1', '1', '1'], 'EOMONTH': ['D1', 'A1', '1', '1'], 'IF': ['A1<B1', 'A1', 'B1', 'A2', 'A3'],
    'IFERROR': ['A1/C3', 'B2', '1', '1'], 'IFS': ['A1>B1', '1', 'A1<B1', '2', 'TRUE', '3', 'TRUE'],
    'INDEX': ['A1:B3', '2', '2', '1', '1', '1'], 'LEFT': ['C1', '2', '1', '1'], 'RIGHT': ['C1', '2', '1', '1'],
    'MID': ['C1', '2', '2', '1', '1'], 'MATCH': ['2', 'A1:A3', '0', '1', '1'], 'XMATCH': ['5', 'B1:B3', '0', '1', '1', '1'],
    'NETWORKDAYS': ['D1', 'D2', 'D3:D4', 'D3:D4', '1'], 'SEARCH': ['"b"', 'C1', '3', '1', '1'],
    'SUMIF': ['A1:A3', '">1"', 'B1:B3', 'A1:A3', '1'], 'SUMIFS': ['A1:A3', 'B1:B3', '">4"', 'A1:A3', '"<3"', 'B1:B3', '">0"'],
    'TODAY': ['1', '2'], 'VLOOKUP': ['2', 'A1:B3', '2', '0', '1', '1'], 'TEXT': ['A1', '"0"', '1', '1'],
    'VALUE': ['"12.5"', '1', '1'], 'ROUND': ['B2/A3', '2', '1', '1'], 'ROUNDUP': ['B2/A3', '1', '1', '1'],
    'ROUNDDOWN': ['B2/A3', '1', '1', '1'],
}
MAXA = {'ADDRESS': 5, 'AVERAGEIFS': 5, 'COUNTIFS': 4, 'IFS': 6, 'SUMIFS': 5, 'XMATCH': 4, 'INDEX': 4}


def plan(tier, seed):
    thorough = tier == 'thorough'
    full_len, small_len, sp_len = (5, 6, 5) if thorough else (4, 5, 4)

    def seqs():
        for n in range(0, full_len + 1):
            for t in itertools.product(range(len(TOK)), repeat=n):
                yield {'t': list(t), 'j': ''}
        small = [TOK.index(x) for x in TOK_SMALL]
        for t in itertools.product(small, repeat=small_len):
            yield {'t': list(t), 'j': ''}
        for n in range(2, sp_len + 1):
            for t in itertools.product(range(len(TOK)), repeat=n):
                yield {'t': list(t), 'j': ' '}
    phases = [{'name': 'token-sequences', 'cases': seqs(), 'runner': 'run_sequences', 'chunk': 2500}]

    def edits():
        for name, f in corpus.CORPUS:
            toks = boundaries(f)
            for k in range(len(toks)):
                yield {'base': name, 'edit': 'delete', 'at': k}
                yield {'base': name, 'edit': 'dup', 'at': k}
            for k in range(len(toks) + 1):
                for ins in ['1', '+', ')', '(', ',', '"s"', 'A1', '%', '=', '^', '#', '{', '@', '%d', '{0}']:      # the last six: characters and format syntax no token knows
                    yield {'base': name, 'edit': 'insert', 'at': k, 'ins': ins}
    phases.append({'name': 'corpus-edits', 'cases': edits(), 'runner': 'run_edits', 'chunk': 150})

    def arities():
        for fn in sorted(ARITY):
            mx = MAXA.get(fn, 3) + 2
            for n in range(0, mx + 1):
                for trail in (False, True):
                    for sep in (',', ';'):
                        if n == 0 and trail:
                            continue
                        yield {'fn': fn, 'n': n, 'trail': trail, 'sep': sep}
    phases.append({'name': 'function-arities', 'cases': arities(), 'runner': 'run_arities', 'chunk': 100})

    def variants():
        for name, f in corpus.CORPUS:
            toks = boundaries(f)
            for ws in (' ', '\t', '\n', '  \n '):
                for k in range(1, len(toks)):
                    if ws_allowed(toks, k):
                        yield {'base': name, 'var': 'ws', 'ws': ws, 'at': k}
                yield {'base': name, 'var': 'ws', 'ws': ws, 'at': -1}
            nsep = toks.count(',')
            for mask in range(1, 1 << min(nsep, 6)):
                yield {'base': name, 'var': 'sep', 'mask': mask}
    phases.append({'name': 'whitespace-and-separators', 'cases': variants(), 'runner': 'run_variants', 'chunk': 150})
    # an argument that is an operator expression is the whole expression: brackets around it change nothing
    phases.append({'name': 'argument-expressions', 'cases': [{'fn': f, 'arg': a, 'lead': l} for f in range(len(ARG_FUNCS))
                                                             for a in range(len(ARG_EXPRS)) for l in range(len(ARG_LEADS))],
                   'runner': 'run_arg_expr', 'chunk': 60})
    # areas joined with &: every area of the chain takes part (compared with the same join written cell by cell)
    phases.append({'name': 'joined-areas', 'cases': [{'k': k, 'n': n, 'q': q} for k in (2, 3, 4, 5) for n in (1, 2, 3) for q in (0, 1)],
                   'runner': 'run_joined', 'chunk': 8})
    return phases


def run_joined(cases, stats):
    cols = ['A', 'B', 'A', 'B', 'A']
    texts = []
    for c in cases:
        areas = [(f"'D'!{x}1:{x}3" if c['q'] and j % 2 else f'{x}1:{x}3') for j, x in enumerate(cols[:c['k']])]
        texts.append('=INDEX(' + '&'.join(areas) + f',{c["n"]})')
        texts.append('=' + '&'.join(f'INDEX({a},{c["n"]})' for a in areas))
    vals = full_eval(texts, stats)
    vio = []
    for i, c in enumerate(cases):
        a, b = vals[2 * i], vals[2 * i + 1]
        stats['validated'] += 1
        stats['nontrivial'] += 1

        def flat(v):
            while isinstance(v, (list, tuple)) and len(v) == 1:
                v = v[0]
            return v
        ok = a[0] == b[0] == 'VALUE' and flat(a[1]) == b[1]
        stats['out:' + ('same' if ok else 'differs')] += 1
        if not ok:
            vio.append({'i': i, 'desc': {'gen': 'joined-areas', 'base': 'INDEX', 'areas': c['k'], 'outcome': a[0] if a[0] != 'VALUE' else 'VALUE_MISMATCH'},
                        'expected': [texts[2 * i + 1], D.enc(b[1]) if b[0] == 'VALUE' else list(b)],
                        'observed': [texts[2 * i], D.enc(a[1]) if a[0] == 'VALUE' else list(a)]})
    return vio


ARG_FUNCS = ['COUNT({x})', 'SUM({x})', 'MAX({x})', 'MIN({x})', 'AVERAGE({x})', 'AND({x})', 'OR({x})', 'CONCATENATE({x})', 'COUNTBLANK(A1:A2)+COUNT({x})',
             'IF({x},1,2)', 'IFERROR({x},0)', 'ROUND({x},1)', 'LEFT({x},2)', 'VALUE({x})', 'YEAR({x})', 'IFS(TRUE,{x})', 'INDEX(A1:A3,{x})',
             'MATCH({x},A1:A3,0)', 'VLOOKUP({x},A1:B3,2,0)', 'SUMIF(A1:A3,{x})', 'COUNTIFS(A1:A3,{x})', 'ROUNDUP(2.345,{x})', 'MID(C1,{x},2)',
             'SEARCH({x},C1&"12")', 'EDATE(D1,{x})', 'DATE(2020,{x},1)', 'ADDRESS({x},2)']
# F9 and F8 are blank cells of the corpus block
ARG_EXPRS = ['F9+1', 'A1+1', 'A2*2', 'A1&"x"', 'A1>0', 'F9&""', 'A1%+1', 'F9=0', 'A1:A1+1', 'A1-F9', 'A3/A1', 'E1&E1', 'A2<>A1', '1+A1', 'D1+1']
ARG_LEADS = ['', 'A1:A3,', 'B1,']


def run_arg_expr(cases, stats):
    texts = []
    for c in cases:
        fn, arg, lead = ARG_FUNCS[c['fn']], ARG_EXPRS[c['arg']], ARG_LEADS[c['lead']]
        multi = fn.split('(')[0] in ('COUNT', 'SUM', 'MAX', 'MIN', 'AVERAGE', 'AND', 'OR', 'CONCATENATE')
        if lead and not multi:
            texts += [None, None]
            continue
        texts.append('=' + fn.format(x=lead + arg))
        texts.append('=' + fn.format(x=lead + '(' + arg + ')'))
    live = [t for t in texts if t is not None]
    vals = dict(zip(live, full_eval(live, stats)))
    vio = []
    for i, c in enumerate(cases):
        plain, bracketed = texts[2 * i], texts[2 * i + 1]
        if plain is None:
            continue
        a, b = vals[plain], vals[bracketed]
        if a[0].startswith('LIB_EXC') or b[0].startswith('LIB_EXC'):
            # one spelling is outside the grammar (e.g. a criterion that starts with a number and an operator): rejecting it
            # whole is what the statement allows - the law speaks of spellings that are both accepted
            stats['x:explored_not_judged'] += 1
            continue
        stats['validated'] += 1
        stats['nontrivial'] += 1
        same = (a[0] == b[0]) and (a[0] != 'VALUE' or repr(a[1]) == repr(b[1])) or \
            (a[0] != 'VALUE' and b[0] != 'VALUE' and a[0].split(':')[0] == b[0].split(':')[0] == 'EVAL_EXC')
        stats['out:' + ('same' if same else 'differs')] += 1
        if not same:
            vio.append({'i': i, 'desc': {'gen': 'argument-expression', 'base': ARG_FUNCS[c['fn']].split('(')[0], 'arg': ARG_EXPRS[c['arg']],
                                         'outcome': a[0] if a[0] != 'VALUE' else 'VALUE_MISMATCH'},
                        'expected': [bracketed, D.enc(b[1]) if b[0] == 'VALUE' else list(b)],
                        'observed': [plain, D.enc(a[1]) if a[0] == 'VALUE' else list(a)]})
    return vio


# ---------------------------------------------------------------------------------------------

_TOKRE = re.compile(r'"(?:[^"]|"")*"|<>|<=|>=|[A-Z][A-Z0-9.]*(?=\()|\$?[A-Z]{1,3}\$?\d+(?::\$?[A-Z]{1,3}\$?\d+)?|\d+(?:\.\d+)?|\S')


def boundaries(formula):
    """token texts of a corpus formula (after the leading =)"""
    return _TOKRE.findall(formula[1:])


def ws_allowed(toks, k):
    """may whitespace go between toks[k-1] and toks[k]?  Everywhere: the library lexes a function name and its opening
    bracket as two tokens, and the oracle of this phase is differential (same outcome as the text without the whitespace)."""
    return True


_EXCEL = None


def excel_with(text):
    """the real Excel object of the corpus workbook with the formula under test in H1"""
    global _EXCEL
    from excel2pycl.src.excel import Excel
    if _EXCEL is None:
        cells = dict(corpus.DATA)
        cells['H1'] = '=1'
        _EXCEL = Excel.parse(D.build_xlsx([('D', cells)]))
    _EXCEL._data[0][0][7] = text
    return _EXCEL


def fast_outcome(text):
    from excel2pycl.src.context import Context
    from excel2pycl.src.translators import CellTranslator
    excel = excel_with(text)
    ctx = Context()
    ctx._titles = excel.get_titles()
    ctx._sheets_size = excel.get_sheets_size()
    try:
        with D.time_limit(5):
            CellTranslator.translate(D.Cell(0, 7, 0), excel, ctx)
        return 'ACCEPT'
    except D.CaseTimeout:
        return 'TIMEOUT'
    except RecursionError:
        return 'FOREIGN_EXC:RecursionError'
    except Exception as e:  # noqa
        return D.exc_kind(e)


def ref_env():
    cells = {}
    for a, v in corpus.DATA.items():
        col, row = D.split_a1(a)
        cells[('D', col, int(row))] = v
    return R.Env(cells, 'D', funcs=REF_FUNCS)


def _arity_only(name):
    def f(env, args):
        if not ARITY[name](len(args)):
            raise R.Invalid(name + ' arity')
        raise R.Unspecified(name)
    return f


REF_FUNCS = {n: _arity_only(n) for n in ARITY if n not in R.FUNCS}


def ref_outcome(text):
    """('INVALID',) | ('VALID', value) | ('VALID', UNSPEC)"""
    try:
        ast = R.parse(text)
    except R.Invalid:
        return ('INVALID',)
    try:
        check_arity(ast)
    except R.Invalid:
        return ('INVALID',)
    env = ref_env()
    if '%' in text:
        env.fuzzy = 1e-13
    try:
        v = R.evaluate(ast, env)
        if env.events & {'text_in_product', 'text_plus_text'}:
            return ('VALID', R.Unspecified)   # Python string arithmetic: a known finding of C01, not a parsing matter
        return ('VALID', v)
    except R.Invalid:
        return ('INVALID',)
    except R.Unspecified:
        return ('VALID', R.Unspecified)
    except RecursionError:
        return ('VALID', R.Unspecified)


def check_arity(ast):
    if not isinstance(ast, tuple):
        return
    if ast[0] == 'call':
        if ast[1] not in ARITY:
            raise R.Invalid('unknown function')
        if not ARITY[ast[1]](len(ast[2])):
            raise R.Invalid('arity')
        for a in ast[2]:
            check_arity(a)
    else:
        for x in ast[1:]:
            if isinstance(x, tuple):
                check_arity(x)


def shape_of(text):
    """coarse token-kind shape for descriptors"""
    s = re.sub(r'"[^"]*"', 'T', text)
    s = re.sub(r'[A-Z]+\d+(:[A-Z]+\d+)?', 'R', s)
    s = re.sub(r'\d+(\.\d+)?', 'N', s)
    s = re.sub(r'\s+', '_', s)
    return s[:40]


def judge(text, lib, ref, value_out, stats):
    """returns (outcome label, detail) or None"""
    if lib.startswith('FOREIGN_EXC') or lib.startswith('LOAD_ERROR') or lib == 'TIMEOUT':
        return lib, None
    if lib.startswith('LIB_EXC'):
        if lib != 'LIB_EXC:parser':
            return lib, None  # only the parser exception may be raised for a formula text
        return None
    # accepted
    if ref[0] == 'INVALID':
        return 'ACCEPTED_INVALID', None
    if ref[1] is R.Unspecified or value_out is None:
        stats['x:explored_not_judged'] += 1
        return None
    pct = '%' in text
    ok, why = R.same_value(ref[1], value_out, 1e-14 if pct else 0.0, abs_tol=2e-13 if pct else 0.0)
    if not ok:
        return ('VALUE_MISMATCH' if value_out[0] == 'VALUE' else value_out[0]), [repr(ref[1]), D.enc(value_out[1]) if value_out[0] == 'VALUE' else list(value_out)]
    return None


def full_eval(texts, stats):
    """evaluate formula texts through the full pipeline (formula in H@0 over the corpus data block)"""
    # the corpus data block has fixed addresses: the formulas of a batch go to H10, H11, ...
    res = [None] * len(texts)

    def run(idx):
        cells = dict(corpus.DATA)
        addr = {}
        for n, i in enumerate(idx):
            a = f'H{10 + n}'   # one column for all: COLUMN() must not depend on the batch position
            cells[a] = texts[i]
            addr[i] = a
        kind, text = D.translate([('D', cells)])
        stats['transitions'] += 1
        if kind == 'TEXT':
            k2, cls, _ = D.load_class(text)
            if k2 != 'CLASS':
                kind, text = k2, cls
        if kind != 'TEXT':
            if len(idx) == 1:
                res[idx[0]] = (kind, text)
            else:
                run(idx[:len(idx) // 2])
                run(idx[len(idx) // 2:])
            return
        ex = D.new_executor(cls)
        for i in idx:
            col, row = D.split_a1(addr[i])
            res[i] = D.eval_cell(ex, 'D', col, row)
            stats['evaluations'] += 1
    for s in range(0, len(texts), 120):
        run(list(range(s, min(s + 120, len(texts)))))
    return res


def run_sequences(cases, stats):
    vio = []
    texts = ['=' + c['j'].join(TOK[k] for k in c['t']) for c in cases]
    libs, refs = [], []
    accept_valid = []
    for i, t in enumerate(texts):
        lib = fast_outcome(t)
        ref = ref_outcome(t)
        stats['transitions'] += 1
        stats['validated'] += 1
        stats['out:' + lib] += 1
        if ref[0] == 'INVALID':
            stats['nontrivial'] += 1
        libs.append(lib)
        refs.append(ref)
        if lib == 'ACCEPT':
            accept_valid.append(i)
    vals = dict(zip(accept_valid, full_eval([texts[i] for i in accept_valid], stats))) if accept_valid else {}
    for i, t in enumerate(texts):
        lib = libs[i]
        vo = None
        if lib == 'ACCEPT':
            vo = vals[i]
            if vo[0].startswith('LOAD_ERROR') or vo[0].startswith('FOREIGN_EXC') or vo[0] == 'TIMEOUT' or vo[0].startswith('LIB_EXC'):
                lib = vo[0] if not vo[0].startswith('LIB_EXC') else 'FASTPATH_DISAGREES:' + vo[0]
        j = judge(t, lib, refs[i], vo, stats)
        if j:
            vio.append({'i': i, 'desc': {'gen': 'sequence', 'join': 'blank' if cases[i]['j'] else 'none', 'shape': shape_of(t),
                                         'outcome': j[0]}, 'expected': 'reject or the reference value ' + repr(refs[i])[:80],
                        'observed': [t, j[1]]})
    return vio


def apply_edit(c):
    f = dict(corpus.CORPUS)[c['base']]
    toks = boundaries(f)
    if c['edit'] == 'delete':
        toks = toks[:c['at']] + toks[c['at'] + 1:]
    elif c['edit'] == 'dup':
        toks = toks[:c['at'] + 1] + [toks[c['at']]] + toks[c['at'] + 1:]
    else:
        toks = toks[:c['at']] + [c['ins']] + toks[c['at']:]
    out = ''
    for k, t in enumerate(toks):
        if out and (out[-1].isalnum() or out[-1] in '"') and (t[0].isalnum() or t[0] == '"'):
            out += ' '   # keep adjacent operands apart so that the edit stays a token-level edit
        out += t
    return '=' + out


def run_texts(cases, texts, gen, stats, extra_desc):
    vio = []
    vals = full_eval(texts, stats)
    for i, (t, vo) in enumerate(zip(texts, vals)):
        ref = ref_outcome(t)
        stats['validated'] += 1
        if ref[0] == 'INVALID':
            stats['nontrivial'] += 1
        lib = 'ACCEPT' if vo[0] in ('VALUE',) or vo[0].startswith('EVAL_EXC') else vo[0]
        stats['out:' + lib] += 1
        j = judge(t, lib, ref, vo if lib == 'ACCEPT' else None, stats)
        if j:
            vio.append({'i': i, 'desc': dict(extra_desc(cases[i]), gen=gen, outcome=j[0]),
                        'expected': 'reject or the reference value ' + repr(ref)[:80], 'observed': [t, j[1]]})
    return vio


def run_edits(cases, stats):
    texts = [apply_edit(c) for c in cases]
    return run_texts(cases, texts, 'edit', stats, lambda c: {'base': c['base'].split('/')[0], 'edit': c['edit'], 'ins': c.get('ins', '')})


def arity_text(c):
    fn, n = c['fn'], c['n']
    args = (ARGS.get(fn) or ['A1', 'B1', 'A2', 'B2', 'A3', 'B3', '1', '2'])[:n]
    while len(args) < n:
        args.append('1')
    body = c['sep'].join(args) + (c['sep'] if c['trail'] else '')
    return f'={fn}({body})'


def run_arities(cases, stats):
    vio = []
    texts = [arity_text(c) for c in cases]
    vals = full_eval(texts, stats)
    for i, (c, t, vo) in enumerate(zip(cases, texts, vals)):
        ok_arity = ARITY[c['fn']](c['n']) and not c['trail'] or (c['trail'] and TRAILING_SEP_OK.get(c['fn']) == c['n'])
        stats['validated'] += 1
        if not ok_arity:
            stats['nontrivial'] += 1
        lib = 'ACCEPT' if vo[0] == 'VALUE' or vo[0].startswith('EVAL_EXC') else vo[0]
        stats['out:' + lib] += 1
        bad = None
        if lib.startswith('FOREIGN_EXC') or lib.startswith('LOAD_ERROR') or lib == 'TIMEOUT' or \
                (lib.startswith('LIB_EXC') and lib != 'LIB_EXC:parser'):
            bad = lib
        elif lib == 'ACCEPT' and not ok_arity:
            bad = 'ACCEPTED_INVALID'
        if bad:
            vio.append({'i': i, 'desc': {'gen': 'arity', 'fn': c['fn'], 'n': c['n'], 'trail': c['trail'], 'outcome': bad},
                        'expected': 'parser exception' if not ok_arity else 'value or parser exception',
                        'observed': [t, list(vo) if vo[0] != 'VALUE' else D.enc(vo[1])]})
    return vio


def variant_text(c):
    f = dict(corpus.CORPUS)[c['base']]
    toks = boundaries(f)
    if c['var'] == 'sep':
        out, k = '', 0
        for t in toks:
            if t == ',':
                t = ';' if c['mask'] >> min(k, 5) & 1 else ','
                k += 1
            out += t
        return '=' + out
    out = ''
    for k, t in enumerate(toks):
        if k and (c['at'] == k or (c['at'] == -1 and ws_allowed(toks, k))):
            out += c['ws']
        out += t
    return '=' + out


def run_variants(cases, stats):
    vio = []
    texts = [variant_text(c) for c in cases]
    bases = [dict(corpus.CORPUS)[c['base']] for c in cases]
    uniq = sorted(set(bases))
    base_vals = dict(zip(uniq, full_eval(uniq, stats)))
    vals = full_eval(texts, stats)
    for i, (c, t, vo) in enumerate(zip(cases, texts, vals)):
        bo = base_vals[bases[i]]
        stats['validated'] += 1
        stats['nontrivial'] += 1
        same = (vo[0] == bo[0]) and (vo[0] != 'VALUE' or (repr(vo[1]) == repr(bo[1])))
        stats['out:' + ('same' if same else 'differs')] += 1
        if not same:
            vio.append({'i': i, 'desc': {'gen': 'variant', 'var': c['var'], 'ws': repr(c.get('ws', ''))[1:-1],
                                         'base': c['base'].split('/')[0],
                                         'outcome': vo[0] if vo[0] != 'VALUE' else 'VALUE_MISMATCH'},
                        'expected': [bases[i], D.enc(bo[1]) if bo[0] == 'VALUE' else list(bo)],
                        'observed': [t, D.enc(vo[1]) if vo[0] == 'VALUE' else list(vo)]})
    return vio
