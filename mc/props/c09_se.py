"""SE part of C09: all 2-thread schedules of concurrent translations from cold token tables up to a preemption bound
(explorer and scheduler: mc/sched.py)."""
from mc import driver as D

PAIRS = {
    # the same cell addresses and token shapes, other operators / constants: anything shared by address, position or
    # length between two parses collides
    'small': ([('S', {'A1': 2, 'B1': '=A1+2'})], [('S', {'A1': 3, 'B1': '=A1*3'})]),
    'calls': ([('S', {'A1': 2, 'B1': '=A1+2', 'C1': '=IF(A1>1,SUM(A1,B1),"n")'})],
              [('S', {'A1': 3, 'B1': '=A1*3', 'C1': '=IF(A1<1,MAX(A1,B1),"y")'})]),
}
_JOBS = {}
_BASE = {}
_COLD_OK = [None]


def jobs(pair):
    if pair not in _JOBS:
        _JOBS[pair] = [D.build_xlsx(spec) for spec in PAIRS[pair]]
    return _JOBS[pair]


def baseline(pair):
    if pair not in _BASE:
        out = []
        for j in jobs(pair):
            j.seek(0)
            out.append(D.Parser().disable_safety_check().set_excel_file_path(j).get_translation())
        _BASE[pair] = out
    return _BASE[pair]


def phases(tier, seed):
    from mc import sched
    th = tier == 'thorough'
    # (pair, cold tables?, preemption bound)
    plan = [('small', True, 2 if th else 1), ('calls', True, 1 if th else 0), ('small', False, 3 if th else 2),
            ('calls', False, 2 if th else 1)]
    cases = []
    for pair, cold, bound in plan:
        baseline(pair)   # also leaves the tables warm
        for first in (0, 1):
            cases.append({'pair': pair, 'first': first, 'k1': None, 'bound': bound, 'cold': cold})
            if bound >= 1:
                n = sched.execute(jobs(pair), first, [], cold).count
                for k1 in range(n):
                    cases.append({'pair': pair, 'first': first, 'k1': k1, 'bound': bound, 'cold': cold})
    return [{'name': 'shared-state-inventory', 'cases': [{}], 'runner': 'run_inventory', 'chunk': 1, 'serial': True, 'samples': 0},
            {'name': 'two-thread-schedules', 'cases': cases, 'runner': 'run_se', 'chunk': 4 if th else 6}]


KNOWN_SHARED = {'_SUBCLASSES', '_TOKEN_SETS', '_PROCESSED', '_FOUND'}


def run_inventory(cases, stats):
    """Which module-level / class-level containers of excel2pycl.* does a translation change?  (fresh interpreter.)
    Everything found must be one of the tables the scheduler knows; anything else is reported as a NOTE (it is not by
    itself a violation of the property, but the schedule enumeration has no scheduling points for it)."""
    import json
    import os
    import subprocess
    import sys
    root = os.path.dirname(os.path.dirname(os.path.dirname(os.path.abspath(__file__))))
    p = subprocess.run([sys.executable, '-W', 'ignore', '-m', 'mc.sched', 'inventory'], capture_output=True, text=True, cwd=root,
                       timeout=300)
    if p.returncode != 0:
        raise RuntimeError('inventory subprocess failed: ' + p.stderr[-1500:])
    inv = json.loads(p.stdout.strip().splitlines()[-1])
    stats['transitions'] += 2
    stats['validated'] += 1
    allc = inv['changed_by_first_translation'] + inv['changed_by_second_translation']
    unknown = sorted({x for x in allc if x.rsplit('.', 1)[1] not in KNOWN_SHARED})
    stats['x:shared_state_attributes_changed_by_translation'] += len(set(allc))
    stats['x:untracked_shared_state'] += len(unknown)
    for x in unknown:
        print(f'NOTE: property=C09 process-global state outside the scheduler\'s tables is changed by a translation: {x}')
    return []


def run_se(cases, stats):
    from mc import sched
    vio = []
    if _COLD_OK[0] is None:
        sched.install()
        sched.reset_cold()
        mine, fresh = sched.table_state(), sched.cold_state_of_fresh_interpreter()
        _COLD_OK[0] = mine == fresh
        if not _COLD_OK[0]:
            diff = sorted(k for k in fresh if fresh[k] != mine.get(k))[:5]
            return [{'i': 0, 'desc': {'clause': 'schedule', 'outcome': 'HARNESS_COLD_STATE_DIFFERS'}, 'expected': 'cold tables as in a fresh '
                     'interpreter', 'observed': diff, 'noconfirm': True}]
    for i, c in enumerate(cases):
        pair, first, k1, bound, cold = c['pair'], c['first'], c['k1'], c['bound'], c.get('cold', True)
        base = baseline(pair)

        def one(switch):
            s = sched.execute(jobs(pair), first, switch, cold)
            stats['x:schedules'] += 1
            stats['transitions'] += 1
            stats['x:scheduling_points_visited'] += s.count
            stats['validated'] += 1
            if s.preemptions:
                stats['nontrivial'] += 1
            bad = None
            if s.hang:
                bad = 'HANG'
            else:
                for t, r in enumerate(s.results):
                    if r is None or r[0] != 'TEXT':
                        bad = 'NO_RESULT' if r is None else r[0]
                    elif r[1] != base[t]:
                        bad = 'TEXT_DIFFERS'
            stats['out:' + (bad or 'same-as-sequential')] += 1
            if bad:
                vio.append({'i': i, 'desc': {'clause': 'schedule', 'pair': pair, 'cold': cold, 'preemptions': s.preemptions, 'outcome': bad},
                            'expected': 'both texts equal the sequential baselines',
                            'observed': {'first': first, 'switch_at': list(switch), 'preempted_at': [list(x) for x in s.points_where],
                                         'results': [None if r is None else (r[0] if r[0] != 'TEXT' else 'TEXT') for r in s.results]}})
            return s

        if k1 is None:
            a = one([])
            b = sched.execute(jobs(pair), first, [], cold)       # the same schedule twice: identical observations
            if (a.count, a.results) != (b.count, b.results):
                vio.append({'i': i, 'desc': {'clause': 'schedule', 'pair': pair, 'outcome': 'NONDETERMINISTIC_REPLAY'},
                            'expected': [a.count], 'observed': [b.count], 'noconfirm': True})
            continue
        s1 = one([k1])
        if bound >= 2 and s1.preemptions:
            for k2 in range(k1 + 1, s1.count):
                s2 = one([k1, k2])
                if bound >= 3 and s2.preemptions == 2:
                    for k3 in range(k2 + 1, s2.count):
                        one([k1, k2, k3])
    # one violation per descriptor is enough
    uniq = {}
    for v in vio:
        uniq.setdefault(repr(sorted(v['desc'].items())), v)
    return list(uniq.values())
