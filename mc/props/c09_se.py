"""SE part of C09 (schedule enumeration); see mc/sched.py."""


def phases(tier, seed):
    return []
