"""C10 - comparisons are exact and lawful.  BE: all ordered pairs over a value alphabet x 6 operators x sources."""
import datetime
from fractions import Fraction

from mc import driver as D

PROP = 'C10'
RULE = ('complete product: ordered pairs (a,b) over the value alphabet x {=,<>,<,<=,>,>=} (+ the swapped b>a) x source '
        '{override, workbook constant, literal, literal x cell / override mixes, bracketed operands}; non-trivial = pair judged by at least one clause of the statement '
        '(exact numeric result, same-kind laws, blank clauses, date = midnight date-time)')
ASSUMPTIONS = ['text collation/case, number-vs-text, date-vs-number and boolean-vs-number pairs are explored but not judged '
               '(the statement does not fix them)',
               'blank operand = a never-written cell (None as an override value is outside the alphabet)']

DT = datetime.datetime
NUMS = [-10, -2, -1, 0, 1, 2, 9, 10, 0.5, 1.2, 1.7, -0.5, -1.5, 2.5, 0.1 + 0.2, 0.3, 1e-7, 1e15 + 0.5, 3.999999, 4,
        1234567.125, 1234567.25, 1.000000000000001, 0.1234567890123456, 0.1234567890123457, -3, -2.5]
TEXTS = ['', 'a', 'b', 'B', 'ab', '10', '9', '1.5', ' ', '-1', '0', '-0.5', '10.0', '1.50', '010']      # numeric-looking texts of every sign; the same number spelled differently (laws only)
DATES = [DT(2019, 12, 31), datetime.date(2020, 1, 1), DT(2020, 1, 1), DT(2020, 1, 1, 12, 0), DT(2024, 2, 29),
         datetime.date(2024, 2, 29)]
BOOLS = [True, False]
BLANK = None
ALPHABET = NUMS + TEXTS + DATES + [BLANK] + BOOLS
EXTRA = [' a', 'a ', 'A', 'aB', 'z', '0.0', '-5', 2 ** 53 + 2, -(2 ** 53) - 2, 1e-300, 123456789.123456, 123456789.123457, -0.3, -(0.1 + 0.2),
         DT(2020, 1, 1, 0, 0, 1), DT(1900, 1, 1), DT(9999, 12, 31)]
QUICK_NUMS = [-10, -1, 0, 1, 2, 10, 0.5, 1.2, 1.7, -0.5, -1.5, 0.1 + 0.2, 0.3, 1e15 + 0.5]
QUICK = QUICK_NUMS + ['', 'a', 'B', '10', '9'] + DATES[:4] + [BLANK] + BOOLS

OPS = ['=', '<>', '<', '<=', '>', '>=']
COLS = ['C', 'D', 'E', 'F', 'G', 'H']


def kind(v):
    if v is None:
        return 'blank'
    if isinstance(v, bool):
        return 'bool'
    if isinstance(v, (int, float)):
        return 'num'
    if isinstance(v, str):
        return 'text'
    if isinstance(v, (datetime.date, datetime.datetime)):
        return 'date'
    return 'other'


def plan(tier, seed):
    alpha = ALPHABET + EXTRA if tier == 'thorough' else ALPHABET
    pairs = [(a, b) for a in alpha for b in alpha]
    phases = []
    for src in ('ov', 'cell', 'lit'):
        def gen(src=src):
            for a, b in pairs:
                if src == 'lit' and not (lit(a) and lit(b)):
                    continue
                if src == 'cell' and not (storable(a) and storable(b)):
                    continue
                yield {'a': D.enc(a), 'b': D.enc(b), 'src': src}
        phases.append({'name': 'pairs-' + src, 'cases': gen(), 'runner': 'run_' + src, 'chunk': 150})

    def gen_mix():
        for a, b in pairs:
            for side in ('lit-cell', 'cell-lit', 'lit-ov', 'ov-lit'):
                l, c = (a, b) if side.startswith('lit') else (b, a)
                if lit(l) is None or (side.endswith('cell') or side.startswith('cell')) and not storable(c):
                    continue
                yield {'a': D.enc(a), 'b': D.enc(b), 'src': side}
    phases.append({'name': 'pairs-mixed-sources', 'cases': gen_mix(), 'runner': 'run_mix', 'chunk': 150})

    def gen_br():
        for a, b in pairs:
            yield {'a': D.enc(a), 'b': D.enc(b), 'src': 'ov-bracketed'}
    phases.append({'name': 'pairs-bracketed-operands', 'cases': gen_br(), 'runner': 'run_ov_bracketed', 'chunk': 150})
    return phases


def lit(v):
    """Formula text of a literal denoting v, or None."""
    if isinstance(v, bool):
        return 'TRUE' if v else 'FALSE'
    if isinstance(v, (int, float)) and v >= 0:
        if isinstance(v, int):
            return str(v)
        s = format(Fraction(v).limit_denominator(10 ** 17), 'f') if False else _dec(v)
        return s
    if isinstance(v, str) and '"' not in v:
        return '"' + v + '"'
    return None


def _dec(x: float) -> str:
    """positional decimal text that float() maps back to x."""
    from decimal import Decimal
    s = format(Decimal(repr(x)), 'f')
    assert float(s) == x
    return s


def storable(v):
    """Can the value be planted as a workbook constant and read back unchanged?"""
    if v == '' and isinstance(v, str):
        return False
    if type(v) is datetime.date:
        return False  # xlsx stores date-times only
    if isinstance(v, float) and float('%.16g' % v) != v:
        return False  # openpyxl writes 16 significant digits
    return True


# ---------------------------------------------------------------------------------------------
# oracle

def judge(a, b, res, desc_base):
    """res: dict op -> outcome tuple for a op b, plus 'swap>' for b > a.  Returns list of violations (desc, exp, obs)."""
    ka, kb = kind(a), kind(b)
    out = []
    judged = False

    def val(op):
        k, v = res[op]
        if k != 'VALUE':
            return ('!', k)
        if v is True or v is False:
            return v
        return ('?', repr(v))

    def expect(op, want, law):
        nonlocal judged
        judged = True
        got = val(op)
        if got is not want:
            o = 'VALUE_MISMATCH' if isinstance(got, bool) else (got[1] if got[0] == '!' else 'NOT_BOOL')
            out.append((dict(desc_base, kinds=[ka, kb], op=op, law=law, outcome=o), want, D.enc(res[op][1]) if res[op][0] == 'VALUE' else list(res[op])))

    if ka == 'num' and kb == 'num':
        fa, fb = Fraction(a), Fraction(b)
        truth = {'=': fa == fb, '<>': fa != fb, '<': fa < fb, '<=': fa <= fb, '>': fa > fb, '>=': fa >= fb}
        for op in OPS:
            expect(op, truth[op], 'exact')
        expect('swap>', fb > fa, 'exact')
    same = ka == kb and ka in ('num', 'text', 'date', 'blank')
    if same and not (ka == 'num'):
        judged = True
        v = {op: val(op) for op in OPS + ['swap>']}
        bad = [op for op, x in v.items() if not isinstance(x, bool)]
        if bad:
            for op in bad:
                x = v[op]
                out.append((dict(desc_base, kinds=[ka, kb], op=op, law='total', outcome=x[1] if x[0] == '!' else 'NOT_BOOL'),
                            'a boolean', list(res[op]) if res[op][0] != 'VALUE' else D.enc(res[op][1])))
        else:
            def law(name, ok):
                if not ok:
                    out.append((dict(desc_base, kinds=[ka, kb], op=name, law=name, outcome='LAW'), 'law holds',
                                {op: v[op] for op in v}))
            law('trichotomy', [v['<'], v['='], v['>']].count(True) == 1)
            law('ne_is_not_eq', v['<>'] == (not v['=']))
            law('le_is_not_gt', v['<='] == (not v['>']))
            law('ge_is_not_lt', v['>='] == (not v['<']))
            law('lt_iff_swapped_gt', v['<'] == v['swap>'])
            if ka == 'blank':
                law('blank_eq_blank', v['='] is True)
            if ka == 'text' and a == b:
                law('text_eq_itself', v['='] is True)
            if ka == 'date':
                da = a if isinstance(a, DT) else DT(a.year, a.month, a.day)
                db = b if isinstance(b, DT) else DT(b.year, b.month, b.day)
                if da == db:
                    law('date_eq_midnight', v['='] is True)
    # a blank cell equals 0: against a number it behaves as the number 0, all six operators
    if {ka, kb} == {'blank', 'num'}:
        fa, fb = Fraction(a or 0), Fraction(b or 0)
        truth = {'=': fa == fb, '<>': fa != fb, '<': fa < fb, '<=': fa <= fb, '>': fa > fb, '>=': fa >= fb}
        for op in OPS:
            expect(op, truth[op], 'blank_is_zero')
        expect('swap>', fb > fa, 'blank_is_zero')
    # blank clauses (both operand orders are separate cases of the ordered-pair enumeration)
    if ka == 'blank' and kb != 'blank':
        if (kb == 'num' and b == 0) or (kb == 'text' and b == '') or (kb == 'bool' and b is False):
            expect('=', True, 'blank_equals')
        elif (kb == 'num' and b > 0) or (kb == 'text' and b != '') or kb == 'date':
            expect('<', True, 'blank_smaller')
            expect('swap>', True, 'blank_smaller')
            expect('>', False, 'blank_smaller')
            expect('=', False, 'blank_smaller')
    if kb == 'blank' and ka != 'blank':
        if (ka == 'num' and a == 0) or (ka == 'text' and a == '') or (ka == 'bool' and a is False):
            expect('=', True, 'blank_equals')
        elif (ka == 'num' and a > 0) or (ka == 'text' and a != '') or ka == 'date':
            expect('>', True, 'blank_smaller')
            expect('<', False, 'blank_smaller')
            expect('=', False, 'blank_smaller')
    return out, judged


FORMS = {op: f'=A@0{op}B@0' for op in OPS}
FORMS['swap>'] = '=B@0>A@0'
FCOL = dict(zip(OPS + ['swap>'], COLS + ['I']))


def _finish(cases, results, stats, src):
    vio = []
    for i, (c, res) in enumerate(zip(cases, results)):
        a, b = D.dec(c['a']), D.dec(c['b'])
        stats['transitions'] += len(res)
        stats['evaluations'] += len(res)
        v, judged = judge(a, b, res, {'src': src})
        if judged:
            stats['validated'] += 1
            stats['nontrivial'] += 1
        for op, (k, x) in res.items():
            stats['out:' + (k if k != 'VALUE' else ('bool' if isinstance(x, bool) else type(x).__name__))] += 1
        for desc, exp, obs in v:
            vio.append({'i': i, 'desc': desc, 'expected': exp, 'observed': obs})
    return vio


def run_ov_bracketed(cases, stats):
    return run_ov(cases, stats, bracketed=True)


def run_ov(cases, stats, bracketed=False):
    forms = FORMS
    if bracketed:
        # the same comparisons with each operand in brackets, with a sign-neutral wrapper on one side
        forms = {op: f'=(A@0){op}(B@0)' for op in OPS}
        forms['swap>'] = '=(B@0)>(A@0)'
    sheets = [('S', {FCOL[k] + '1': D._subst(f, 1) for k, f in forms.items()} | {'J1': 1})]
    kind_, text = D.translate(sheets)
    assert kind_ == 'TEXT', (kind_, text)
    k2, cls, _ = D.load_class(text)
    assert k2 == 'CLASS', (k2, cls)
    stats['transitions'] += 1
    results = []
    for c in cases:
        a, b = D.dec(c['a']), D.dec(c['b'])
        ex = D.new_executor(cls)
        ov = []
        if a is not None:
            ov.append(D.Cell('S', 'A', '1', value=a))
        if b is not None:
            ov.append(D.Cell('S', 'B', '1', value=b))
        if ov:
            ex.set_cells(ov)
        results.append({k: D.eval_cell(ex, 'S', FCOL[k], '1') for k in FORMS})
    vio = _finish(cases, results, stats, 'ov-bracketed' if bracketed else 'ov')
    if not bracketed:
        # the same pair held by the workbook: the answers may not depend on where the operands come from
        idx = [i for i, c in enumerate(cases) if storable(D.dec(c['a'])) and storable(D.dec(c['b']))]
        items = []
        for i in idx:
            a, b = D.dec(cases[i]['a']), D.dec(cases[i]['b'])
            cells = {}
            if a is not None:
                cells['A@0'] = a
            if b is not None:
                cells['B@0'] = b
            items.append({'f': {FCOL[k] + '@0': f for k, f in FORMS.items()}, 'cells': cells})
        raw = D.eval_items(items, stats=stats)
        for i, r in zip(idx, raw):
            a, b = D.dec(cases[i]['a']), D.dec(cases[i]['b'])
            for k in FORMS:
                o_cell, o_ov = r[FCOL[k] + '@0'], results[i][k]
                stats['x:source_comparisons'] += 1
                if (o_cell[0], repr(o_cell[1]) if o_cell[0] == 'VALUE' else None) != (o_ov[0], repr(o_ov[1]) if o_ov[0] == 'VALUE' else None):
                    vio.append({'i': i, 'desc': {'src': 'ov-vs-cell', 'kinds': [kind(a), kind(b)], 'op': k, 'law': 'source_independent',
                                                 'outcome': 'LAW'}, 'expected': ['as workbook constants', D.enc(o_cell[1]) if o_cell[0] == 'VALUE' else list(o_cell)],
                                'observed': ['as overrides', D.enc(o_ov[1]) if o_ov[0] == 'VALUE' else list(o_ov)]})
                    break
    return vio


def run_cell(cases, stats):
    items = []
    for c in cases:
        a, b = D.dec(c['a']), D.dec(c['b'])
        cells = {}
        if a is not None:
            cells['A@0'] = a
        if b is not None:
            cells['B@0'] = b
        items.append({'f': {FCOL[k] + '@0': f for k, f in FORMS.items()}, 'cells': cells})
    raw = D.eval_items(items, stats=stats)
    results = [{k: r[FCOL[k] + '@0'] for k in FORMS} for r in raw]
    return _finish(cases, results, stats, 'cell')


def run_lit(cases, stats):
    items = []
    for c in cases:
        a, b = D.dec(c['a']), D.dec(c['b'])
        la, lb = lit(a), lit(b)
        f = {FCOL[op] + '@0': f'={la}{op}{lb}' for op in OPS}
        f['I@0'] = f'={lb}>{la}'
        items.append({'f': f})
    raw = D.eval_items(items, stats=stats)
    results = [{k: r[FCOL[k] + '@0'] for k in FORMS} for r in raw]
    return _finish(cases, results, stats, 'lit')


def run_mix(cases, stats):
    """One operand is a literal in the formula text, the other a workbook constant or an override."""
    items = []
    for c in cases:
        a, b = D.dec(c['a']), D.dec(c['b'])
        side = c['src']
        lit_left = side.startswith('lit')
        la, lb = (lit(a), 'B@0') if lit_left else ('A@0', lit(b))
        f = {FCOL[op] + '@0': f'={la}{op}{lb}' for op in OPS}
        f['I@0'] = f'={lb}>{la}'
        other_addr, other = ('B@0', b) if lit_left else ('A@0', a)
        it = {'f': f}
        if other is not None:
            if side.endswith('ov') or side.startswith('ov'):
                it['ov'] = {other_addr: other}
                it['cells'] = {other_addr: 424242}
            else:
                it['cells'] = {other_addr: other}
        items.append(it)
    raw = D.eval_items(items, stats=stats)
    results = [{k: r[FCOL[k] + '@0'] for k in FORMS} for r in raw]
    vio = []
    for src in ('lit-cell', 'cell-lit', 'lit-ov', 'ov-lit'):
        idx = [i for i, c in enumerate(cases) if c['src'] == src]
        sub = _finish([cases[i] for i in idx], [results[i] for i in idx], stats, src)
        for v in sub:
            v['i'] = idx[v['i']]
        vio.extend(sub)
    return vio
