"""C13 - IF / IFS / IFERROR choose the right branch and contain errors.  BE over programs (nests) x contexts x truth assignments."""
import itertools

from mc import driver as D
from mc import sweep as S
from mc.ref import formula as R

PROP = 'C13'
RULE = ('programs: every depth-1 construct {IF/2, IF/3, IFS with 1, 2 and 3 pairs, IFERROR} over the leaf kinds {prime number, '
        'failing expressions 1/0 (ZeroDivisionError), MONTH("x") (AttributeError), VLOOKUP beyond its table (IndexError), cell '
        'holding #N/A} in every value position (210 nests); depth 2 = every depth-1 construct with '
        'one value position replaced by any depth-1 construct (the other positions range over the leaf kinds); depth 3 '
        '(thorough) = IF/3, IFS/2 pairs and IFERROR with one position replaced by any depth-2 nest, all over the leaf kinds '
        '{prime, failing}; every depth-1 nest in all '
        '10 contexts, deeper nests in a rotating context; conditions are distinct cells overridden with every assignment over '
        '{TRUE, FALSE, 1, 0, blank, -1.5} (<= 3 conditions) or every TRUE/FALSE assignment plus single 1 / 0 / blank / -1.5 deviations; '
        'non-trivial = assignments under which an unchosen branch holds a failing or error leaf, or no IFS condition is true, or '
        'IFERROR meets an error')
ASSUMPTIONS = ['conditions are booleans, numbers or blank (text conditions and error-valued conditions: statement silent)',
               'when the nest itself evaluates to an error value, only the bare nest (and IFERROR around it) is judged: how an '
               'error then travels through the surrounding operator belongs to C01/C10',
               '#N/A is demanded by name for IFS without a true condition; other error values may be any error outcome']

PRIMES = [2, 3, 5, 7, 11, 13, 17, 19, 23, 29, 31, 37, 41, 43, 47, 53, 59, 61, 67, 71, 73, 79, 83, 89, 97]
LEAF_KINDS = ['P', 'F', 'E']
LEAF_KINDS_1 = ['P', 'F', 'E', 'A', 'I']   # depth-1 constructs also range over failures of other exception families
# the last two repeat the nest inside one cell, with another registered sub-expression in between / around
CONTEXTS = ['{0}', '1+{0}', '{0}+1', '2*{0}', '-{0}', '{0}&"x"', '{0}=3', 'SUM({0},1)', 'IF({0}>0,"P","N")', 'ROUND({0},0)',
            '{0}&"/"&IFS(1>2,"k",TRUE,"m")&"/"&{0}', 'IF(SUM(1,2)>2,{0},0)+IFS(TRUE,0)+{0}',
            # IFERROR around MIN that holds the nest: an error value among MIN's arguments is MIN's value (as in Excel) and
            # reaches IFERROR.  (MAX and SUM of this library skip error values like texts; C11 does not fix that, not judged.)
            'IFERROR(MIN({0},1000),"fb")']
CNAMES = ['bare', '1+n', 'n+1', '2*n', '-n', 'n&x', 'n=3', 'SUM(n,1)', 'IF(n>0)', 'ROUND(n,0)', 'n&IFS&n', 'IF(SUM,n)+IFS+n',
          'IFERROR(MIN(n))']
COND_COLS = ['C', 'D', 'E', 'F', 'G', 'H', 'I', 'J', 'K', 'L', 'M', 'N']
TRUTHS = [True, False, 1, 0, None, -1.5]

# nest := ('L', kind) | ('IF', [v]) | ('IF', [v, w]) | ('IFS', [v...]) | ('IFERROR', [a, b])
# IFSR: IFS whose last condition repeats its first one (the value of the first pair answers)
CONSTRUCTS = [('IF', 1), ('IF', 2), ('IFS', 1), ('IFS', 2), ('IFS', 3), ('IFERROR', 2), ('IFSR', 2), ('IFSR', 3)]


def depth1():
    out = []
    for name, k in CONSTRUCTS:
        for leaves in itertools.product(LEAF_KINDS_1, repeat=k):
            out.append((name, [('L', x) for x in leaves]))
    return out


def one_hole(outer, inner):
    """Every outer construct with exactly one value position replaced by an inner nest; other positions all leaf kinds,
    reduced to {P, F} when the construct has three positions (keeps the product finite and complete over that set)."""
    for name, k in outer:
        kinds = LEAF_KINDS if k <= 2 else ['P', 'F']
        for pos in range(k):
            for rest in itertools.product(kinds, repeat=k - 1):
                for sub in inner:
                    vals = [('L', x) for x in rest]
                    vals.insert(pos, sub)
                    yield (name, vals)


def depth_of(n):
    return 0 if n[0] == 'L' else 1 + max(depth_of(v) for v in n[1])


def render(nest):
    """-> (formula text without '=', number of condition cells); conditions are C@0, D@0, ... in order of appearance;
    the error cell is B@0."""
    st = {'c': 0, 'p': 0}

    def go(n):
        if n[0] == 'L':
            if n[1] == 'P':
                st['p'] += 1
                return str(PRIMES[st['p'] - 1])
            # F: ZeroDivisionError, A: AttributeError (MONTH of a text), I: IndexError (result column beyond the table),
            # E: a cell holding the error value #N/A
            return {'F': '1/0', 'E': 'B@0', 'A': 'MONTH("x")', 'I': 'VLOOKUP(2,Y@0:Y@0,5,0)'}[n[1]]
        name, vals = n
        if name == 'IF':
            c = cond()
            return 'IF(' + ','.join([c] + [go(v) for v in vals]) + ')'
        if name in ('IFS', 'IFSR'):
            parts = []
            first = None
            for k, v in enumerate(vals):
                c = first if (name == 'IFSR' and k == len(vals) - 1) else cond()
                first = first or c
                parts.append(c)
                parts.append(go(v))
            return 'IFS(' + ','.join(parts) + ')'
        return 'IFERROR(' + go(vals[0]) + ',' + go(vals[1]) + ')'

    def cond():
        st['c'] += 1
        return COND_COLS[st['c'] - 1] + '@0'

    return go(nest), st['c']


# the two failing leaves that are function calls: in the reference they simply are errors
def _minmax(pick):
    def f(env, args):
        n = R._numeric_args(env, args)
        return n if isinstance(n, R.Err) else (pick(n) if n else 0)
    return f


FAILING = {'MONTH': lambda env, args: R.Err('VALUE'), 'VLOOKUP': lambda env, args: R.Err('REF'), 'MIN': _minmax(min), 'MAX': _minmax(max)}


def assignments(k):
    if k <= 3:
        return list(itertools.product(range(len(TRUTHS)), repeat=k))
    out = list(itertools.product((0, 1), repeat=k))
    for pos in range(k):
        for dev in (2, 3, 4, 5):
            for other in (0, 1):
                a = [other] * k
                a[pos] = dev
                out.append(tuple(a))
    return out


def plan(tier, seed):
    d1 = depth1()
    th = tier == 'thorough'

    def cases1():
        for i, n in enumerate(d1):
            for ci in range(len(CONTEXTS)):
                yield {'nest': n, 'ctx': ci}

    def cases2():
        for i, n in enumerate(one_hole(CONSTRUCTS, d1)):
            yield {'nest': n, 'ctx': i % len(CONTEXTS)}
            if i % 7 == 0:
                yield {'nest': n, 'ctx': 0}

    def cases3():
        # depth 3 over the smaller leaf alphabet {prime, failing}: complete for that alphabet
        d1s = [n for n in d1 if all(v[1] != 'E' for v in n[1])]
        d2s = [n for n in one_hole(CONSTRUCTS, d1s) if all(v[0] != 'L' or v[1] != 'E' for v in n[1])]
        for i, n in enumerate(one_hole([('IF', 2), ('IFERROR', 2), ('IFS', 2)], d2s)):
            if any(v[0] == 'L' and v[1] == 'E' for v in n[1]):
                continue
            yield {'nest': n, 'ctx': (i // 3) % len(CONTEXTS)}

    phases = [{'name': 'depth-1-all-contexts', 'cases': cases1(), 'runner': 'run_nests', 'chunk': 60},
              {'name': 'depth-2-rotating-context', 'cases': cases2(), 'runner': 'run_nests', 'chunk': 60}]
    # "... and the first argument's value otherwise": IFERROR around a first argument of every kind of value (blank cell,
    # 0, empty text, FALSE, number, text, error values), reached through every kind of reference, plus an area
    phases.append({'name': 'iferror-first-argument-kinds', 'cases': [{'v': i, 'w': j} for i in range(len(FIRST_VALUES))
                                                                     for j in range(len(FIRST_VALUES))],
                   'runner': 'run_first_arg', 'chunk': 8})
    if th:
        phases.append({'name': 'depth-3-rotating-context', 'cases': cases3(), 'runner': 'run_nests', 'chunk': 60})
    return phases


FIRST_VALUES = [None, 0, '', False, 5, 'txt', '#N/A', '#DIV/0!', 0.0, True]
FIRST_FORMS = {   # reader -> (formula, 'v' = value of S!W1 decides / 'w' = value of T!A9 / ...)
    'A1': ('=IFERROR(W1,"fb")', 'v'), 'A2': ('=IFERROR(T!A9,"fb")', 'w'), 'A3': ('=IFERROR(IFERROR(W1,"a"),"b")', 'v2'),
    'A4': ('=IFERROR(IF(TRUE,W1),"fb")', 'v'), 'A5': ('=IFERROR(INDEX(W1:W3,1),"fb")', 'v'), 'A6': ('=IFERROR($W$1,"fb")&"|"', 'v&'),
    'A7': ('=IF(TRUE,IFERROR(W1,"fb"),"no")', 'v'), 'A8': ('=IFERROR(T!Z99,"fb")', 'blank'),
    'A9': ('=SUM(IFERROR(Q1:Q2,5))', 'area'), 'A10': ('=IFS(TRUE,IFERROR(W1,"fb"))', 'v'),
}
FIRST_SCAFFOLD = [('S', dict({a: f for a, (f, _) in FIRST_FORMS.items()}, W2=1, W3=2, Q1=1, Q2=2)), ('T', {'B1': 1})]
ERRS = ('#N/A', '#DIV/0!')


def run_first_arg(cases, stats):
    cls = S.get_class(FIRST_SCAFFOLD, stats=stats)
    vio = []
    readers = list(FIRST_FORMS)
    for i, c in enumerate(cases):
        v, w = FIRST_VALUES[c['v']], FIRST_VALUES[c['w']]
        ov = [(a, x) for a, x in (('W1', v), (('T', 'A9'), w)) if x is not None]
        outs = S.run(cls, ov, readers, stats)
        for a, o in zip(readers, outs):
            f, how = FIRST_FORMS[a]
            x = {'v': v, 'v2': v, 'v&': v, 'w': w, 'blank': None, 'area': None}[how]
            fb = 'a' if how == 'v2' else 'fb'      # the inner IFERROR already answers: its fallback is no error
            stats['validated'] += 1
            stats['out:' + S.out_label(o)] += 1
            if how == 'area':
                ok = o == ('VALUE', 3)
                want = 3
            elif x in ERRS:
                stats['nontrivial'] += 1
                want = fb + ('|' if how == 'v&' else '')
                ok = o == ('VALUE', want)
            elif how == 'v&':
                # the text form of the value in front of the bar (a blank joins as nothing or - Excel's final 0 - as 0)
                want = [R.text_form(x) + '|'] if x is not None else ['|', '0|']
                ok = o[0] == 'VALUE' and o[1] in want
            elif x is None:
                stats['nontrivial'] += 1
                want = 'blank (or 0), never the fallback'
                ok = o[0] == 'VALUE' and (D.is_blank(o[1]) or (o[1] == 0 and not isinstance(o[1], bool)))
            else:
                if not x:
                    stats['nontrivial'] += 1
                want = x
                ok = o[0] == 'VALUE' and not D.is_blank(o[1]) and type(o[1]) is type(x) and o[1] == x
            if not ok:
                vio.append({'i': i, 'desc': {'nest': ['IFERROR'], 'context': 'first-argument', 'form': f,
                                             'first': 'blank' if x is None else ('error' if x in ERRS else type(x).__name__),
                                             'outcome': 'VALUE_MISMATCH' if o[0] == 'VALUE' else o[0]},
                            'expected': D.enc(want), 'observed': S.obs(o)})
    return vio


def features(nest):
    names = []

    def go(n, d):
        if n[0] != 'L':
            names.append(n[0] + (('/' + str(len(n[1]))) if n[0] != 'IFERROR' else ''))
            for v in n[1]:
                go(v, d + 1)
    go(nest, 0)
    return names


def run_nests(cases, stats):
    items, metas = [], []
    for c in cases:
        nest = _tup(c['nest'])
        text, k = render(nest)
        formula = '=' + CONTEXTS[c['ctx']].format(text)
        items.append({'f': {'A@0': formula, 'Z@0': '=' + text}, 'cells': {'B@0': '#N/A', 'Y@0': 2}})
        metas.append((nest, text, k, formula))
    comps = D.compile_items(items, stats=stats, batch=60)
    vio = []
    for i, (c, it, comp, (nest, text, k, formula)) in enumerate(zip(cases, items, comps, metas)):
        if comp[0] != 'OK':
            vio.append({'i': i, 'desc': {'nest': features(nest), 'context': CNAMES[c['ctx']], 'depth': depth_of(nest),
                                         'outcome': comp[0]}, 'expected': 'translates', 'observed': str(comp[1])[:300]})
            continue
        ast_ctx = R.parse(D._subst(formula, 1))
        ast_bare = R.parse(D._subst('=' + text, 1))
        for asg in assignments(k):
            vals = [TRUTHS[j] for j in asg]
            cells = {('S', 'B', 1): R.Err('NA')}
            for col, v in zip(COND_COLS, vals):
                cells[('S', col, 1)] = v
            env = R.Env(cells, funcs=FAILING)
            try:
                bare = R.evaluate(ast_bare, env)
                want = bare if c['ctx'] == 0 else (None if isinstance(bare, R.Err) and not CONTEXTS[c['ctx']].startswith('IFERROR(')
                                                   else R.evaluate(ast_ctx, R.Env(cells, funcs=FAILING)))
            except R.Unspecified:
                stats['x:not_judged'] += 1
                continue
            ov = [(col + '@0', v) for col, v in zip(COND_COLS, vals) if v is not None]
            outs = D.eval_compiled(comp, it, ov, stats)
            stats['cases'] += 1
            for addr, w, form in (('Z@0', bare, 'bare'), ('A@0', want, CNAMES[c['ctx']])):
                if addr == 'A@0' and c['ctx'] == 0:
                    continue
                o = outs[addr]
                stats['out:' + S.out_label(o)] += 1
                if w is None:
                    stats['x:not_judged'] += 1
                    continue
                stats['validated'] += 1
                named = isinstance(w, R.Err) and w.kind == 'NA' and _na_by_ifs(nest, vals)
                if isinstance(bare, R.Err) or _has_bad_leaf(nest):
                    stats['nontrivial'] += 1
                ok, _ = R.same_value(w, o, named_errors=named)
                if not ok:
                    kk, _ = o
                    vio.append({'i': i, 'desc': {'nest': features(nest), 'context': form, 'depth': depth_of(nest),
                                                 'result_is_error': isinstance(bare, R.Err),
                                                 'truths': sorted(set(type(v).__name__ for v in vals)),
                                                 'outcome': 'VALUE_MISMATCH' if kk == 'VALUE' else kk},
                                'expected': repr(w) if isinstance(w, R.Err) else D.enc(w),
                                'observed': {'formula': D._subst(formula if addr == 'A@0' else '=' + text, 1),
                                             'conditions': D.enc(vals), 'got': S.obs(o)}})
    return vio


def _tup(n):
    return (n[0], n[1]) if n[0] == 'L' else (n[0], [_tup(v) for v in n[1]])


def _has_bad_leaf(n):
    if n[0] == 'L':
        return n[1] != 'P'
    return any(_has_bad_leaf(v) for v in n[1])


def _na_by_ifs(nest, vals):
    """True when the outermost evaluation path ends in an IFS without a true condition (then #N/A is named by the
    statement).  Conservative: only a top-level IFS whose conditions are all false."""
    if nest[0] != 'IFS':
        return False
    k = len(nest[1])
    # the top-level IFS owns the condition cells 1, and the ones after each value's own conditions
    idx, pos = [], 0
    for v in nest[1]:
        idx.append(pos)
        pos += 1 + _nconds(v)
    return all(not vals[j] for j in idx)


def _nconds(n):
    if n[0] == 'L':
        return 0
    own = {'IF': 1, 'IFS': len(n[1]), 'IFSR': len(n[1]) - 1, 'IFERROR': 0}[n[0]]
    return own + sum(_nconds(v) for v in n[1])
