"""C04 - overrides mean edit-the-cell-and-recalculate; the last write wins.

ES: every sequence of <= d set_cells batches (stateless: each history is replayed on a fresh real Executor), every cell
queried after every step, compared with a from-scratch translation of the edited workbook (memoised per model state).
EE: the depth-2 exploration is repeated in separate processes for a range of PYTHONHASHSEED values.
"""
import datetime
import itertools
import json
import os
import subprocess
import sys

from mc import driver as D

DT = datetime.datetime

PROP = 'C04'
RULE = ('explicit-state exploration of the real Executor: ALL sequences of d set_cells batches (d=3 quick, 4 thorough) over '
        'the batch alphabet (single cell / two cells / the same cell twice with different values; targets: constant, '
        'formula, pass-through formula (=A1, cross-sheet as well) with readers behind it, failing formula =1/0, blank inside the used range, referenced cell beyond it, unreferenced cell beyond it, '
        'cell below the used range but inside an area some formula folds, '
        'cell on sheet 2; numeric and A1+title addressing), every cell queried after every step; oracle = whole-workbook '
        're-translation of the edited workbook.  Plus the depth-2 exploration under each PYTHONHASHSEED in a separate process. '
        'non-trivial = history in which some cell is written more than once or a formula/failing cell is overridden')
ASSUMPTIONS = ['None is not an override value (the statement speaks of supplied constants)',
               'oracle is differential: the same library translates the edited workbook from scratch']

BASE = [('S', {'A1': 10, 'B1': '=A1*2', 'C1': '=B1+A1', 'D1': '=1/0', 'E1': '=D1+1', 'F1': '=H9+1', 'B2': 3,
               'C2': '=SUM(A1:A2)', 'D2': '=A2&"|"', 'AB1': 4, 'E2': '=AB1*3',
               # areas that reach beyond the used range of their sheet: an override out there belongs to them as well
               'G1': '=SUM(A1:A6)+10*COUNT(A4:B7)', 'G2': "=SUM('T 2'!A1:B6)",
               'P1': '=MATCH(2,A1:A6,0)', 'Q1': '=INDEX(A1:B7,5,1)', 'R1': "=VLOOKUP(2,'T 2'!B1:B6,1,0)",
               # pass-through cells (a formula that is one bare reference) with readers behind them
               # (everything stays in rows 1 and 2: the used range of the sheet must end there for the areas above)
               'K1': '=A1', 'L1': '=K1+1', 'M1': "='T 2'!A1", 'N1': '=SUM(K1:M1)', 'O1': '=IF(M1>5,"big","small")'}),
        ('T 2', {'A1': 7, 'B1': '=S!A1+A1', 'C1': "=S!D1", 'D1': '=SUM(A2:B5)'})]
# target name -> (title, col, row)
TARGETS = {'const': ('S', 'A', 1), 'formula': ('S', 'B', 1), 'failing': ('S', 'D', 1), 'blank': ('S', 'A', 2),
           'beyond_ref': ('S', 'H', 9), 'wide': ('S', 'AB', 1), 'beyond': ('S', 'J', 12), 'sheet2': ('T 2', 'A', 1),
           'below_in_area': ('S', 'A', 5), 'below_in_area2': ('T 2', 'B', 4), 'forward': ('S', 'K', 1), 'forward_x': ('S', 'M', 1)}
TITLE_IDX = {'S': 0, 'T 2': 1}
QUERY = [('S', c, r) for c, r in [('A', 1), ('B', 1), ('C', 1), ('D', 1), ('E', 1), ('F', 1), ('A', 2), ('B', 2), ('C', 2),
                                  ('D', 2), ('H', 9), ('J', 12), ('AB', 1), ('E', 2), ('G', 1), ('G', 2), ('P', 1), ('Q', 1), ('R', 1), ('A', 5), ('K', 1), ('L', 1), ('M', 1),
                                  ('N', 1), ('O', 1)]] + \
    [('T 2', 'A', 1), ('T 2', 'B', 1), ('T 2', 'C', 1), ('T 2', 'D', 1), ('T 2', 'B', 4)]


def _ops():
    ops = []
    for i, t in enumerate(TARGETS):
        ops.append([(t, 1, 'num')])
        ops.append([(t, 2, 'a1')])
    ops.append([('const', 7.5, 'a1')])
    ops.append([('const', 't', 'num')])
    ops.append([('formula', 't', 'a1')])
    # falsy / equal-but-differently-typed values: 0, TRUE, FALSE ('' cannot be stored in an xlsx cell: no oracle)
    ops.append([('const', 0, 'a1')])
    ops.append([('const', True, 'num')])
    ops.append([('const', False, 'a1')])
    # a date-time with a time of day (and a plain number afterwards in other histories): the value is kept as supplied
    ops.append([('const', DT(2024, 3, 5, 14, 30), 'a1')])
    ops.append([('formula', 0, 'num')])
    ops.append([('failing', 0, 'a1')])
    ops.append([('blank', 0, 'num')])
    ops.append([('wide', 1, 'a1')])
    ops.append([('wide', 2, 'num')])
    ops.append([('const', 1, 'num'), ('formula', 2, 'a1')])
    ops.append([('failing', 1, 'a1'), ('sheet2', 2, 'num')])
    ops.append([('blank', 1, 'num'), ('beyond_ref', 2, 'num')])
    ops.append([('const', 1, 'num'), ('const', 2, 'num')])
    ops.append([('const', 2, 'a1'), ('const', 1, 'num')])
    ops.append([('formula', 1, 'a1'), ('formula', 2, 'a1')])
    ops.append([('failing', 2, 'num'), ('failing', 1, 'a1')])
    ops.append([('beyond', 1, 'num'), ('const', 2, 'a1'), ('beyond', 2, 'a1')])
    return ops


OPS = _ops()


def _core():
    """covering sub-alphabet for the deepest level: every target, both addressings, a falsy and a type-changing value,
    one two-cell batch and the same-cell-twice batches"""
    keep = []
    for i, b in enumerate(OPS):
        if len(b) == 1:
            t, v, how = b[0]
            if (t in ('const', 'formula', 'failing') and v in (1, 0, True) and not (t == 'failing' and v == 1 and False)) \
                    or (t in ('blank', 'beyond_ref', 'sheet2', 'wide', 'below_in_area', 'below_in_area2', 'forward', 'forward_x') and v == 2) \
                    or (t == 'beyond' and v == 1):
                keep.append(i)
        elif len({t for t, _, _ in b}) < len(b) or b[0][0] == 'failing':
            keep.append(i)
    return keep


CORE = _core()


def plan(tier, seed):
    n = len(OPS)
    d_all, d_core = (3, 4) if tier == 'thorough' else (2, 3)
    phases = [{'name': f'histories-depth-{d_all}-all-batches',
               'cases': ({'ops': list(h)} for h in itertools.product(range(n), repeat=d_all)),
               'runner': 'run_histories', 'chunk': 300},
              {'name': f'histories-depth-{d_core}-core-batches',
               'cases': ({'ops': list(h)} for h in itertools.product(CORE, repeat=d_core)),
               'runner': 'run_histories', 'chunk': 300}]
    seeds = range(0, 64) if tier == 'thorough' else range(0, 8)
    seeds = [(s + seed * 101) % 4294967295 for s in seeds]
    phases.append({'name': 'hash-seeds', 'cases': [{'hashseed': s, 'depth': 2} for s in seeds], 'runner': 'run_seed',
                   'chunk': 1})
    return phases


# ---------------------------------------------------------------------------------------------

_CLS = None
_EXPECT = {}


def _cls():
    global _CLS
    if _CLS is None:
        k, text = D.translate(BASE)
        assert k == 'TEXT', (k, text)
        k, cls, _ = D.load_class(text)
        assert k == 'CLASS', (k, cls)
        _CLS = cls
    return _CLS


def _norm(out):
    k, v = out
    if k == 'VALUE':
        return ['VALUE', type(v).__name__ if not D.is_blank(v) else 'blank', D.enc(v)]
    return [k]


def expected(model, stats):
    key = tuple(sorted((k, repr(v)) for k, v in model.items()))
    if key in _EXPECT:
        return _EXPECT[key]
    sheets = [(t, dict(c)) for t, c in BASE]
    for (title, col, row), v in model.items():
        for t, c in sheets:
            if t == title:
                c[f'{col}{row}'] = v
    k, text = D.translate(sheets)
    stats['transitions'] += 1
    stats['x:oracle_translations'] += 1
    assert k == 'TEXT', (k, text)
    k, cls, _ = D.load_class(text)
    assert k == 'CLASS'
    ex = D.new_executor(cls)
    res = {q: _norm(D.eval_cell(ex, q[0], q[1], str(q[2]))) for q in QUERY}
    _EXPECT[key] = res
    return res


def make_cell(t, v, how):
    title, col, row = TARGETS[t]
    if how == 'num':
        return D.Cell(TITLE_IDX[title], D_colnum(col) - 1, row - 1, value=v)
    return D.Cell(title, col, str(row), value=v)


def D_colnum(letters):
    n = 0
    for ch in letters:
        n = n * 26 + ord(ch) - 64
    return n


def replay(history, stats):
    """Returns list of (step, query, expected, observed)."""
    ex = D.new_executor(_cls())
    model = {}
    bad = []
    for step, oi in enumerate(history):
        batch = OPS[oi]
        ex.set_cells([make_cell(t, v, how) for t, v, how in batch])
        stats['transitions'] += 1
        for t, v, how in batch:
            model[TARGETS[t]] = v
        exp = expected(model, stats)
        for q in QUERY:
            got = _norm(D.eval_cell(ex, q[0], q[1], str(q[2])))
            stats['transitions'] += 1
            stats['evaluations'] += 1
            if got != exp[q]:
                bad.append((step, q, exp[q], got))
        stats['validated'] += 1
    return bad


def shape(history):
    return [('+'.join(t for t, _, _ in OPS[oi])) for oi in history]


def run_histories(cases, stats):
    vio = []
    for i, c in enumerate(cases):
        h = c['ops']
        targets = [t for oi in h for t, _, _ in OPS[oi]]
        if len(set(targets)) < len(targets) or any(t in ('formula', 'failing') for t in targets):
            stats['nontrivial'] += 1
        bad = replay(h, stats)
        stats['out:' + ('agree' if not bad else 'differ')] += 1
        if bad:
            step, q, exp, got = bad[0]
            tq = [n for n, a in TARGETS.items() if a == q]
            desc = {'clause': 'override', 'depth': step + 1, 'batch': shape(h)[step], 'query': tq[0] if tq else 'dependant',
                    'outcome': got[0] if got[0] != 'VALUE' else 'VALUE_MISMATCH'}
            vio.append({'i': i, 'desc': desc, 'expected': exp, 'observed': {'history': [OPS[o] for o in h], 'at_step': step,
                                                                          'cell': list(q), 'got': got,
                                                                          'mismatches': len(bad)}})
    return vio


def run_seed(cases, stats):
    vio = []
    for i, c in enumerate(cases):
        env = dict(os.environ, PYTHONHASHSEED=str(c['hashseed']))
        p = subprocess.run([sys.executable, '-m', 'mc.props.c04', str(c['depth'])], capture_output=True, text=True, env=env,
                           cwd=os.path.dirname(os.path.dirname(os.path.dirname(os.path.abspath(__file__)))), timeout=900)
        stats['transitions'] += 1
        if p.returncode != 0:
            raise RuntimeError(f'seed subprocess failed: {p.stderr[-2000:]}')
        r = json.loads(p.stdout.strip().splitlines()[-1])
        stats['validated'] += r['histories']
        stats['x:seed_histories'] += r['histories']
        stats['out:seed-' + ('agree' if not r['bad'] else 'differ')] += 1
        if r['bad']:
            b = r['bad'][0]
            desc = {'clause': 'hashseed', 'batch': b['batch'], 'query': b['query'], 'outcome': b['outcome']}
            vio.append({'i': i, 'desc': desc, 'expected': b['expected'], 'observed': b, 'noconfirm': False})
    return vio


def _seed_main(depth):
    import collections
    stats = collections.Counter()
    bad = []
    n = 0
    for h in itertools.product(range(len(OPS)), repeat=depth):
        n += 1
        r = replay(list(h), stats)
        if r and len(bad) < 5:
            step, q, exp, got = r[0]
            tq = [k for k, a in TARGETS.items() if a == q]
            bad.append({'history': [OPS[o] for o in h], 'batch': shape(h)[step], 'query': tq[0] if tq else 'dependant',
                        'expected': exp, 'got': got, 'outcome': got[0] if got[0] != 'VALUE' else 'VALUE_MISMATCH'})
    print(json.dumps({'histories': n, 'bad': bad}, default=str))


if __name__ == '__main__':
    _seed_main(int(sys.argv[1]))
