"""C03 - entry-point translation is a closed, faithful slice; cycles are rejected.  BE over dependency graphs."""
import itertools
import re

from mc import driver as D

PROP = 'C03'
RULE = ('ALL labelled dependency digraphs on n cells (n <= 3 quick, n = 4 thorough, n = 5 with out-degree <= 2 sampled by a '
        'fixed stride in thorough) laid out over two sheets (S!A1,S!B1,S!C1,T!A1,T!B1), every edge realised in each of six '
        'forms (direct reference, one-cell range inside SUM, reference inside IF, whole column inside SUM, column argument of a four-argument INDEX, first argument of IFERROR), formula texts built so that cells on '
        'different sheets with the same successors have byte-identical texts; acyclic: every node as entry point (numeric, '
        'A1-style and a Cell object already used with an Executor): entry class defines every reachable cell and gives the '
        'whole-file value = reference value; cyclic: whole-file translation and every entry reaching the cycle must raise the '
        'parser exception, other entries must still agree.  non-trivial = graph with at least one edge')
ASSUMPTIONS = ['reference value: leaf = distinct prime, inner cell = sum over successors weighted by position (2,3,4,...)']

CELLS = [('S', 'A', 1), ('S', 'B', 1), ('S', 'C', 1), ('T', 'A', 1), ('T', 'B', 1)]
TIDX = {'S': 0, 'T': 1}
PRIMES = [3, 5, 7, 11, 13]
FORMS = ['direct', 'sumrange', 'inif', 'wholecol', 'index4', 'iferror']


def real_title(name, form):
    """the second sheet is titled with digits that are not its position when the edges are IF-wrapped references"""
    return '7' if name == 'T' and form == 'inif' else name


def ref_text(src, dst, form):
    a = f'{dst[1]}{dst[2]}'
    t = real_title(dst[0], form)
    pre = '' if src[0] == dst[0] else (t + '!' if t.isalpha() else "'" + t + "'!")
    if form == 'direct':
        return pre + a
    if form == 'sumrange':
        return f'SUM({pre}{a}:{a})'
    if form == 'index4':
        # the successor is reached through the column argument of the four-argument INDEX only; the value of the edge is
        # the constant 1 of the filler cell E9
        return f'INDEX((E9:E9,E9:E9),1,1+0*{pre}{a},1)'
    if form == 'iferror':
        return f'IFERROR({pre}{a},0)'
    if form == 'wholecol':
        # every cell of the layout sits in row 1, the last (and only) used row of its sheet, alone in its column
        return f'SUM({pre}{dst[1]}:{dst[1]})'
    return f'IF(1>0,{pre}{a},0)'


def graph_cells(n, edges, form):
    """edges: set of (i, j).  Returns {cell index: value or formula text}"""
    out = {}
    for i in range(n):
        succ = sorted(j for (a, j) in edges if a == i)
        if not succ:
            out[i] = PRIMES[i]
        else:
            out[i] = '=' + '+'.join(f'{ref_text(CELLS[i], CELLS[j], form)}*{k + 2}' for k, j in enumerate(succ))
    return out


def reach(n, edges, i):
    seen, stack = set(), [i]
    while stack:
        x = stack.pop()
        for (a, j) in edges:
            if a == x and j not in seen:
                seen.add(j)
                stack.append(j)
    return seen


def ref_values(n, edges, unit=False):
    """None for cells on/behind a cycle; unit: every edge contributes 1 (times its weight) instead of the successor's value"""
    val = {}
    state = {}

    def go(i):
        if i in val:
            return val[i]
        if state.get(i) == 1:
            return None
        state[i] = 1
        succ = sorted(j for (a, j) in edges if a == i)
        if not succ:
            v = PRIMES[i]
        else:
            v = 0
            for k, j in enumerate(succ):
                x = go(j)
                if x is None:
                    v = None
                    break
                v += (1 if unit else x) * (k + 2)
        state[i] = 2
        val[i] = v
        return v
    return [go(i) for i in range(n)]


def all_graphs(n, max_out=None):
    pairs = [(i, j) for i in range(n) for j in range(n)]
    for mask in range(1 << len(pairs)):
        edges = [pairs[b] for b in range(len(pairs)) if mask >> b & 1]
        if max_out is not None:
            if any(sum(1 for (a, _) in edges if a == i) > max_out for i in range(n)):
                continue
        yield edges


def plan(tier, seed):
    def gen():
        ns = [1, 2, 3] if tier != 'thorough' else [1, 2, 3, 4]
        for n in ns:
            for gi, edges in enumerate(all_graphs(n)):
                for form in FORMS:
                    if n == 4 and form != FORMS[gi % len(FORMS)]:
                        continue
                    yield {'n': n, 'edges': [list(e) for e in edges], 'form': form}
        if tier == 'thorough':
            for gi, edges in enumerate(all_graphs(5, 2)):
                if gi % 257 == 0:
                    yield {'n': 5, 'edges': [list(e) for e in edges], 'form': FORMS[gi % len(FORMS)]}
        else:
            # quick: n = 4 restricted to out-degree <= 1 plus the cross-sheet pairs
            for gi, edges in enumerate(all_graphs(4, 1)):
                yield {'n': 4, 'edges': [list(e) for e in edges], 'form': FORMS[gi % len(FORMS)]}
    # areas with a common top-left corner used by several formulas and several times inside one formula: all sequences of
    # three (area, function) uses; the entry class of every formula cell against the whole-file class and the reference
    frag = [{'uses': list(u)} for u in itertools.product(range(len(FRAG_AREAS) * len(FRAG_FUNCS)), repeat=3)]
    return [{'name': 'graphs', 'cases': gen(), 'runner': 'run_graphs', 'chunk': 12},
            {'name': 'shared-fragments', 'cases': frag, 'runner': 'run_fragments', 'chunk': 6}]


FRAG_AREAS = ['A1:B2', 'A1:C2', 'A1:A2']
FRAG_FUNCS = ['SUM', 'MAX']
FRAG_VALUES = {'A1': 2, 'B1': 30, 'C1': 500, 'A2': 7, 'B2': 11, 'C2': 13}


def _frag_value(use):
    area, fn = FRAG_AREAS[use // len(FRAG_FUNCS)], FRAG_FUNCS[use % len(FRAG_FUNCS)]
    last = area[3]
    vals = [v for a, v in FRAG_VALUES.items() if a[0] <= last]
    return f'{fn}({area})', (sum(vals) if fn == 'SUM' else max(vals))


def run_fragments(cases, stats):
    vio = []
    for i, c in enumerate(cases):
        texts, vals = zip(*[_frag_value(u) for u in c['uses']])
        cells = dict(FRAG_VALUES)
        cells['E1'] = '=' + texts[0]
        cells['E2'] = '=' + texts[1]
        cells['E3'] = '=' + texts[2] + '+E1*1000+E2*1000000'
        cells['E4'] = '=' + '+'.join(f'{t}*{10 ** (3 * k)}' for k, t in enumerate(texts))
        want = {('S', 'E1'): vals[0], ('S', 'E2'): vals[1], ('S', 'E3'): vals[2] + vals[0] * 1000 + vals[1] * 1000000,
                ('S', 'E4'): sum(v * 10 ** (3 * k) for k, v in enumerate(vals)), ('T', 'A1'): None}
        want[('T', 'A1')] = want[('S', 'E3')] * 2 + want[('S', 'E4')]
        spec = [('S', cells), ('T', {'A1': '=S!E3*2+S!E4'})]
        bio = D.build_xlsx(spec)
        stats['nontrivial'] += 1
        for entry in [None] + sorted(want):
            p = D.Parser().disable_safety_check().set_excel_file_path(bio)
            bio.seek(0)
            if entry:
                p.set_entrypoint_cell(D.Cell(entry[0], entry[1][0], entry[1][1:]))
            stats['transitions'] += 1
            try:
                with D.time_limit(20):
                    text = p.get_translation()
                k2, cls, _ = D.load_class(text)
            except Exception as e:  # noqa
                k2, cls = D.exc_kind(e), str(e)[:200]
            if k2 != 'CLASS':
                vio.append({'i': i, 'desc': {'clause': 'fragments', 'entry': bool(entry), 'outcome': k2}, 'expected': 'a class',
                            'observed': {'entry': entry, 'detail': str(cls)[:200], 'cells': cells}})
                break
            ex = D.new_executor(cls)
            targets = sorted(want) if entry is None else [entry] + [t for t in sorted(want) if t[0] == 'S' and t[1] in ('E1', 'E2') and
                                                                    entry in (('S', 'E3'), ('T', 'A1'))]
            bad = False
            for t in targets:
                o = D.eval_cell(ex, t[0], t[1][0], t[1][1:])
                stats['validated'] += 1
                if not (o[0] == 'VALUE' and o[1] == want[t] and not D.is_blank(o[1])):
                    vio.append({'i': i, 'desc': {'clause': 'fragments_value', 'entry': bool(entry),
                                                 'outcome': 'VALUE_MISMATCH' if o[0] == 'VALUE' else o[0]}, 'expected': want[t],
                                'observed': {'entry': entry, 'cell': list(t), 'got': D.enc(o[1]) if o[0] == 'VALUE' else list(o),
                                             'cells': cells}})
                    bad = True
                    break
            if bad:
                break
    return vio


def run_graphs(cases, stats):
    vio = []
    for i, c in enumerate(cases):
        n, edges, form = c['n'], {tuple(e) for e in c['edges']}, c['form']
        # layout: n<=3 keeps everything on S except that for n>=2 the last cell moves to T (cross-sheet edges)
        order = CELLS[:n] if n >= 4 else (CELLS[:n] if n == 1 else CELLS[:n - 1] + [CELLS[3]])
        global _ORDER
        cells = {}
        idx_cells = {}
        # map indices to concrete cells
        tmp = list(order)
        content = _graph_cells_on(tmp, n, edges, form)
        sheets = {'S': {}, 'T': {}}
        for k, cell in enumerate(tmp):
            sheets[cell[0]][f'{cell[1]}{cell[2]}'] = content[k]
        # a filler keeps both sheets non-empty; with whole-column edges it sits in row 1, so that every dependency lies in the
        # last used row of its sheet
        filler = 'E1' if form == 'wholecol' else 'E9'
        sheets['S'].setdefault(filler, 1)
        sheets['T'].setdefault(filler, 1)
        spec = [('S', sheets['S']), (real_title('T', form), sheets['T'])]
        bio = D.build_xlsx(spec)
        refv = ref_values(n, edges, unit=(form == 'index4'))
        cyclic = any(v is None for v in refv)
        if edges:
            stats['nontrivial'] += 1

        def fail(clause, detail, outcome):
            vio.append({'i': i, 'desc': {'clause': clause, 'n': n, 'cyclic': cyclic, 'form': form, 'outcome': outcome},
                        'expected': detail[0], 'observed': {'detail': detail[1], 'cells': {f'{c[0]}!{c[1]}{c[2]}': content[k]
                                                                                          for k, c in enumerate(tmp)}}})
        # whole file
        kind, text = D.translate(bio)
        stats['transitions'] += 1
        stats['validated'] += 1
        whole = None
        if cyclic:
            if kind != 'LIB_EXC:parser':
                fail('cycle_whole_file', ('LIB_EXC:parser', kind), kind if kind != 'TEXT' else 'ACCEPTED_CYCLE')
        else:
            if kind != 'TEXT':
                fail('whole_file', ('a class', [kind, text]), kind)
            else:
                k2, cls, _ = D.load_class(text)
                if k2 != 'CLASS':
                    fail('whole_file', ('a class', [k2, cls]), k2)
                else:
                    whole = D.new_executor(cls)
                    for k, cell in enumerate(tmp):
                        out = D.eval_cell(whole, real_title(cell[0], form), cell[1], str(cell[2]))
                        if not (out[0] == 'VALUE' and out[1] == refv[k] and not D.is_blank(out[1])):
                            fail('whole_file_value', (refv[k], [list(cell), D.enc(out[1]) if out[0] == 'VALUE' else list(out)]),
                                 out[0] if out[0] != 'VALUE' else 'VALUE_MISMATCH')
                            break
        stats['out:' + kind.split(':')[0]] += 1
        if cyclic:
            # the rejection holds for every request, not only the first: the same Parser is asked three times, fresh and
            # after it has translated an acyclic workbook (a repeated request must not hand out None or the earlier text)
            for prior in (False, True):
                p = D.Parser().disable_safety_check()
                if prior:
                    p.set_excel_file_path(D.build_xlsx([('S', {'A1': 1, 'B1': '=A1+1'}), ('T', {'A1': 2})]))
                    p.get_translation()
                bio.seek(0)
                p.set_excel_file_path(bio)
                got = []
                for attempt in range(3):
                    stats['transitions'] += 1
                    try:
                        with D.time_limit(20):
                            t = p.get_translation()
                        got.append('NONE' if t is None else 'TEXT')
                    except Exception as e:  # noqa
                        got.append(D.exc_kind(e))
                bio.seek(0)
                stats['validated'] += 1
                if got != ['LIB_EXC:parser'] * 3:
                    fail('cycle_repeated_request', (['LIB_EXC:parser'] * 3, {'after_other_workbook': prior, 'got': got}),
                         'ACCEPTED_CYCLE' if any(g in ('NONE', 'TEXT') for g in got) else got[0])
                    break
        # entries
        for k, cell in enumerate(tmp):
            rs = reach(n, edges, k) | {k}
            reaches_cycle = any(refv[j] is None for j in rs)
            modes = ['num', 'a1'] + (['used'] if whole is not None else [])
            for mode in modes:
                if mode == 'num':
                    ecell = D.Cell(TIDX[cell[0]], ord(cell[1]) - 65, cell[2] - 1)
                elif mode == 'a1':
                    ecell = D.Cell(real_title(cell[0], form), cell[1], str(cell[2]))
                else:
                    ecell = D.Cell(real_title(cell[0], form), cell[1], str(cell[2]))
                    whole.get_cell(ecell)   # the caller's object has been normalised (and filled) by an Executor
                p = D.Parser().disable_safety_check().set_excel_file_path(bio)
                bio.seek(0)
                p.set_entrypoint_cell(ecell)
                stats['transitions'] += 1
                stats['validated'] += 1
                try:
                    with D.time_limit(20):
                        text = p.get_translation()
                    kind = 'TEXT'
                except D.CaseTimeout:
                    kind, text = 'TIMEOUT', ''
                except RecursionError:
                    kind, text = 'FOREIGN_EXC:RecursionError', ''
                except Exception as e:  # noqa
                    kind, text = D.exc_kind(e), str(e)[:200]
                if reaches_cycle:
                    if kind != 'LIB_EXC:parser':
                        fail('cycle_entry', ('LIB_EXC:parser', [list(cell), mode, kind]), kind if kind != 'TEXT' else 'ACCEPTED_CYCLE')
                        break
                    continue
                if kind != 'TEXT':
                    fail('entry', ('a class', [list(cell), mode, kind, text]), kind)
                    break
                k2, cls, _ = D.load_class(text)
                if k2 != 'CLASS':
                    fail('entry', ('a class', [list(cell), mode, k2]), k2)
                    break
                defined = set(re.findall(r'^    def (_\d+_\d+_\d+)\(self\)', text, re.M))
                need = {f'_{TIDX[tmp[j][0]]}_{ord(tmp[j][1]) - 65}_{tmp[j][2] - 1}' for j in rs}
                if not need <= defined:
                    fail('closure', (sorted(need), [list(cell), mode, sorted(defined)]), 'MISSING_CELL')
                    break
                ex = D.new_executor(cls)
                bad = False
                for j in sorted(rs):
                    cj = tmp[j]
                    out = D.eval_cell(ex, real_title(cj[0], form), cj[1], str(cj[2]))
                    stats['evaluations'] += 1
                    if not (out[0] == 'VALUE' and out[1] == refv[j] and not D.is_blank(out[1])):
                        fail('entry_value', (refv[j], [list(cell), mode, list(cj), D.enc(out[1]) if out[0] == 'VALUE' else list(out)]),
                             out[0] if out[0] != 'VALUE' else 'VALUE_MISMATCH')
                        bad = True
                        break
                if bad:
                    break
    # one violation per case is enough
    seen, out = set(), []
    for v in vio:
        if v['i'] not in seen:
            seen.add(v['i'])
            out.append(v)
    return out


def _graph_cells_on(order, n, edges, form):
    out = {}
    for i in range(n):
        succ = sorted(j for (a, j) in edges if a == i)
        if not succ:
            out[i] = PRIMES[i]
        else:
            out[i] = '=' + '+'.join(f'{ref_text(order[i], order[j], form)}*{k + 2}' for k, j in enumerate(succ))
    return out
