"""C19 - the safety gate reports exactly the Python-like cells.  BE over placements of fragments."""
import itertools

from mc import driver as D

PROP = 'C19'
RULE = ('complete product: every placement of one fragment (and of ordered pairs of fragments) from the suspicious / innocent '
        'alphabet over sheets {first, [a chart sheet], second with a space and an apostrophe in the title, third non-ASCII} x columns {A,B,C,Y,Z,AA,AZ,BA} x rows '
        '{1,2,3,12,27}, gate enabled and disabled; expected report built from the planted positions.  non-trivial = workbook '
        'with a suspicious fragment placed where row number != position in the row, or a pair')
ASSUMPTIONS = ['fragments mixing an upper-case call with a nested lower-case one are outside the alphabet (statement silent)',
               'expected fragment texts are written by hand per alphabet entry']

# (cell value, expected reported fragments or None when innocent)
SUSP = [('eval(1)', ['eval(1)']), ('os.system("x")', ['system("x")']), ('f()', ['f()']), ('a_b(1,2)', ['a_b(1,2)']),
        ('x9(y)', ['x9(y)']), ('eval(\n1)', ['eval(\n1)']), ('=eval(1)+1', ['eval(1)']),
        ('see print(2) and exec("3")', ['print(2)', 'exec("3")']), ('=A1+len("ab")', ['len("ab")']),
        ('=eval(1)+eval(1)', ['eval(1)', 'eval(1)']), ('f(a) f(a)', ['f(a)', 'f(a)']),
        (('$array', '=eval(1)'), ['eval(1)']), (('$array', '=SUM(A1:A2)*len("ab")'), ['len("ab")']), ('sha1(A1)', ['sha1(A1)'])]
INNO = [('SUM(1,2)', None), ('=SUM(A1:A2)', None), ('=IF(A1>1,"a",2)', None), ('a (1)', None), ('text', None), (12, None),
        (True, None), ('SUM(1,\n2)', None), ('=ROUND(\nA1,1)', None), ('(1)', None), ('=A1*(B1+2)', None), (2.5, None),
        (('$array', '=SUM(A1:A2*2)'), None)]
# texts that open with a bracket (the first bracket is not the one of the call)
SUSP2 = [('(os.system("x"))', ['system("x")']), ('(1, 2) and exit()', ['exit()']), ('((f()))', ['f()']),
         # fragments that hold format-string syntax (the listing is built from cell text)
         ('exec(run, {})', ['exec(run, {})']), ('=eval("{}+1")', ['eval("{}+1")']), ('len({a, b})', ['len({a, b})']),
         ('f("%s" % x)', ['f("%s" % x)']), ('g({0}, {name}, %(k)s)', ['g({0}, {name}, %(k)'])]     # a fragment ends with the first closing bracket
FRAGS = SUSP + INNO + SUSP2          # appended: the indices used by the pair phase stay what they were
SHEETS = ['S', "Bob's Sheet", 'Лист3']
COLS = ['A', 'B', 'C', 'Y', 'Z', 'AA', 'AZ', 'BA']
ROWS = [1, 2, 3, 12, 27]


def positions(tier):
    cols = COLS if tier == 'thorough' else ['A', 'C', 'Z', 'AA', 'AZ']
    rows = ROWS if tier == 'thorough' else [1, 3, 12]
    return [(s, c, r) for s in range(3) for c in cols for r in rows]


def plan(tier, seed):
    pos = positions(tier)

    def singles():
        for fi in range(len(FRAGS)):
            for p in pos:
                for gate in (True, False):
                    yield {'cells': [[fi, list(p)]], 'gate': gate}

    def pairs():
        ppos = [p for p in pos if p[1] in ('A', 'Z', 'AA') and p[2] in (1, 3, 12)] if tier == 'thorough' else \
            [p for p in pos if p[1] in ('A', 'AA') and p[2] in (1, 12) and p[0] < 2]
        fr = range(len(FRAGS)) if tier == 'thorough' else [0, 1, 5, 6, 7, 9, 10, 11, 16]
        for f1, f2 in itertools.product(fr, repeat=2):
            for p1, p2 in itertools.permutations(ppos, 2):
                if tier != 'thorough' and (p1 > p2):
                    continue
                yield {'cells': [[f1, list(p1)], [f2, list(p2)]], 'gate': True}
    depth = 6 if tier == 'thorough' else 5
    toggles = ({'wb': wb, 'seq': list(seq)} for wb in ('susp', 'susp_formula', 'inno')
               for n in range(1, depth + 1) for seq in itertools.product('EDG', repeat=n) if seq[-1] == 'G')
    return [{'name': 'single-placement', 'cases': singles(), 'runner': 'run_cases', 'chunk': 40},
            {'name': 'pair-placement', 'cases': pairs(), 'runner': 'run_cases', 'chunk': 40},
            {'name': 'gate-toggle-histories', 'cases': toggles, 'runner': 'run_toggles', 'chunk': 20}]


TOGGLE_WB = {
    'susp': [('S', {'A1': 1, 'B2': 'eval(1)', 'C1': '=A1+1'})],
    'susp_formula': [('S', {'A1': 1, 'C3': '=A1+1'}), ('T', {'B2': '=A1+len("ab")'})],
    'inno': [('S', {'A1': 1, 'B2': 'SUM(1,2)', 'C1': '=SUM(A1:A1)'})],
}


def run_toggles(cases, stats):
    """one Parser object per history: E=enable, D=disable, G=get_translation; every G is judged"""
    import excel2pycl
    vio = []
    for i, c in enumerate(cases):
        p = D.Parser().set_excel_file_path(D.build_xlsx(TOGGLE_WB[c['wb']]))
        gate = True
        stats['nontrivial'] += 1
        for step, ch in enumerate(c['seq']):
            stats['transitions'] += 1
            if ch == 'E':
                p.enable_safety_check()
                gate = True
            elif ch == 'D':
                p.disable_safety_check()
                gate = False
            else:
                try:
                    p.get_translation()
                    got = 'OK'
                except excel2pycl.E2PyclSafetyException:
                    got = 'SAFETY'
                except Exception as e:  # noqa
                    got = D.exc_kind(e)
                stats['validated'] += 1
                stats['out:' + got] += 1
                want = c['wb'] != 'inno' and gate
                if (got == 'SAFETY') != want:
                    vio.append({'i': i, 'desc': {'clause': 'toggle_history', 'gate': gate, 'wb': c['wb'],
                                                 'outcome': got}, 'expected': 'SAFETY' if want else 'no safety exception',
                                'observed': {'seq': ''.join(c['seq']), 'at_step': step, 'got': got}})
                    break
    return vio


def run_cases(cases, stats):
    import excel2pycl
    vio = []
    for i, c in enumerate(cases):
        sheets = [(t, {}) for t in SHEETS]
        expect = {}
        for fi, (s, col, row) in c['cells']:
            val, frag = FRAGS[fi]
            if isinstance(val, tuple):
                from openpyxl.worksheet.formula import ArrayFormula
                val = ArrayFormula(f'{col}{row}:{col}{row}', val[1])
            sheets[s][1][f'{col}{row}'] = val
            if frag:
                expect[f"'{SHEETS[s]}'{col}{row}"] = frag
        for s in sheets:
            s[1].setdefault('A1', 1)  # no sheet is empty
        # a chart sheet (a tab that is no worksheet) stands between the first and the second worksheet
        sheets = sheets[:1] + [('Chart', D.CHART_SHEET)] + sheets[1:]
        nontriv = any(FRAGS[fi][1] and D_col(col) != row for fi, (s, col, row) in c['cells']) or len(c['cells']) > 1
        if nontriv:
            stats['nontrivial'] += 1
        p = D.Parser()
        p.enable_safety_check() if c['gate'] else p.disable_safety_check()
        p.set_excel_file_path(D.build_xlsx(sheets))
        stats['transitions'] += 1
        stats['validated'] += 1
        try:
            with D.time_limit(20):
                p.get_translation()
            got = ('OK', None)
        except excel2pycl.E2PyclSafetyException as e:
            got = ('SAFETY', {k: list(v) for k, v in e.suspicious_cells.items()})
        except D.CaseTimeout:
            got = ('TIMEOUT', None)
        except Exception as e:  # noqa
            got = (D.exc_kind(e), None)
        stats['out:' + got[0]] += 1
        want_safety = bool(expect) and c['gate']
        bad = None
        if want_safety:
            if got[0] != 'SAFETY':
                bad = ('not_rejected', got[0])
            elif got[1] != expect:
                if set(got[1]) != set(expect):
                    bad = ('wrong_cells', 'SAFETY')
                else:
                    bad = ('wrong_fragments', 'SAFETY')
        else:
            if got[0] == 'SAFETY':
                bad = ('gate_disabled_raised' if not c['gate'] else 'innocent_rejected', 'SAFETY')
        if bad:
            kinds = sorted({'susp' if FRAGS[fi][1] else 'inno' for fi, _ in c['cells']})
            desc = {'clause': bad[0], 'gate': c['gate'], 'n_cells': len(c['cells']), 'kinds': kinds,
                    'frag': [str(FRAGS[fi][0])[:12] for fi, _ in c['cells']], 'outcome': bad[1]}
            vio.append({'i': i, 'desc': desc, 'expected': expect if want_safety else 'no safety exception',
                        'observed': {'got': got, 'cells': [[str(FRAGS[fi][0]), pos] for fi, pos in c['cells']]}})
    return vio


def D_col(letters):
    n = 0
    for ch in letters:
        n = n * 26 + ord(ch) - 64
    return n
