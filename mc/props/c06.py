"""C06 - translation is total: a loadable Python class or a library exception.  BE over adversarial workbooks."""
import datetime
import itertools
import os
import shutil
import tempfile
import warnings

from openpyxl.utils import get_column_letter
from openpyxl.worksheet.formula import ArrayFormula

from mc import driver as D, corpus

PROP = 'C06'
RULE = ('every workbook below is translated by the real Parser (per-case wall-clock budget) and must end in a library exception '
        'or in text that compiles, instantiates, reports the workbook\'s titles and used ranges, has a member for every planted '
        'cell, returns every non-blank constant unchanged and behaves the same when written to a file and loaded with '
        'load_module (text equality + value equality for every cell): (1) token soups: every sequence of up to 3 tokens '
        '(4 thorough) over a 16-token alphabet and of 4 (5) over an 11-token alphabet as the only formula of a workbook, and '
        'next to well-formed cells; (2) every prefix and every suffix-deletion of every corpus formula (truncated formulas); '
        '(3) every constant type openpyxl delivers x all strings up to length 2 (3) over 14 special characters; (4) sheet '
        'titles: all Excel-legal strings up to length 2 (3) over 11 special characters on 1-3 sheets with references to them; '
        '(5) nesting / length sweeps: brackets, IF, function arguments, unary signs, & and + chains, long numbers / names / texts / '
        'titles, and dependency chains in both directions '
        'up to the depth bound; (6) unsupported functions, array formulas, error values, formulas in every corpus position.  '
        'non-trivial = workbooks holding a malformed / unsupported formula, a special character or a depth > 8')
ASSUMPTIONS = ['"never hangs" is decided as: every case finishes within the per-case budget (5 s quick, 20 s thorough; typical 20 ms)',
               'evaluation-time failures of formula cells are not judged here (only constants must evaluate to themselves)',
               'titles are restricted to what Excel and openpyxl accept (no \\ / ? * [ ] :, no leading/trailing apostrophe, <= 31 characters)']

warnings.filterwarnings('ignore', message='Title is more than 31 characters')
DT = datetime.datetime
TOK = ['1', 'A1', '"s"', '+', '-', '*', '=', '<', '&', '%', '(', ')', ',', 'SUM(', 'IF(', ':']
TOK_SMALL = ['1', 'A1', '+', '-', '=', '%', '(', ')', ',', 'SUM(', 'IF(']
CHARS = ['a', "'", '"', '\\', '\n', '#', '{', '}', '%', '*', '?', '~', '(', ' ']
TITLE_CHARS = ['a', "'", '"', '#', '{', '}', '%', '~', '(', ' ', '!']
CONSTS = [0, 7, -3, 2.5, 1e300, -1e-300, 123456789012345678, True, False, DT(2021, 3, 4, 5, 6, 7), datetime.date(2020, 2, 29),
          datetime.time(1, 2, 3), datetime.timedelta(days=1, seconds=5), '#N/A', '#DIV/0!', '#NAME?', '#REF!', '=', '==', "='", '="',
          '=1+', '=FOO(1)', '=foo()', '=A1:B2', '=1 2', '=#REF!+1', '=SUM(#REF!)', '={1,2}', '=@A1', '=A1#', '=[1]S!A1', '=S!A1:S!B2',
          '=ZZZZ1', '=AAAA1:B2', '=SUM(A1:ZZZZ1)', '=007', '=A1+007', '=00', '=1.50', '=0.0', '=A1+0010.0100',
          '=TRUE', '=1E5', '=.5', '=1.', '=$A$1', '=A$1:$B2', "='S'!A1", "='S'!", '=S!', '=!A1', '=ZZZ99999999', '=A0', '=XFE1',
          '=A1048577', '=RC[-1]', '=SUM(A:A)', '=SUM(1:1)', '=A1 B1', '=(A1,B1)', '=-', '=+', '=%', '=1%%', '=""""', '="a""b"',
          ('$array', '=SUM(A1:A2*2)'), ('$array', '=A1:A2'),
          # complete formulas followed by white space, white space only, an unknown character before a percent sign
          '=A1 ', '=1+2\n', '=SUM(A1:A2)  ', '= ', '=\t', '=A1^2*50%', '=ABS(A1)*5%', '=A1#+10%*(2)', '=A1 %', '=A1{}%s', '=A1^%d']

# references that cannot exist (column beyond ZZZ / XFD, row 0, row beyond the sheet, unknown sheet) in every position that
# takes a reference
ODD_REFS = ['AAAA1', '$AAAA$1', 'AAAA1:AAAA2', 'A1:AAAA1', 'AAAA:AAAA', 'A:AAAA', 'A0', 'A1:A0', 'XFE1', 'A1048577', "'D'!AAAA1",
            'Nope!A1', "'No pe'!A1:B2", 'ZZZ1', 'a1', 'A1:a2', '$A$0',
            # areas where a position may expect one value, several areas, areas joined with &
            # the title of an existing sheet in another letter case
            'd!A1', "'d'!A1:A2", 'd!A:A',
            'A1:A2', 'A:A', 'A1:B2', 'A1:A2,B1:B2', 'A1:A2&B1:B2', 'A1:A2&B1:B2&A1:A2', '(A1:A2)', 'A1:A2&"x"', 'D!A:B']
REF_POSITIONS = ['={r}', '=SUM({r})', '=COLUMN({r})', '=INDEX({r},1)', '=INDEX({r},1,1)', '=INDEX(A1:A2,{r})', '=MATCH(1,{r},0)',
                 '=MATCH({r},A1:A3,0)', '=XMATCH(1,{r})', '=VLOOKUP(1,{r},1,0)', '=VLOOKUP({r},A1:B3,2,0)', '=SUMIF({r},1)',
                 '=SUMIF(A1:A2,1,{r})', '=SUMIF(A1:A2,{r})', '=SUMIFS({r},{r},1)', '=SUMIFS(A1:A2,{r},1)', '=COUNTIFS({r},1)',
                 '=AVERAGEIFS({r},{r},1)', '=COUNT({r})', '=COUNTBLANK({r})', '=MIN({r})', '=MAX({r},1)', '=AVERAGE({r})', '=AND({r})',
                 '=OR({r},TRUE)', '=IF({r}>1,1,2)', '=IF(TRUE,{r},2)', '=IFS(TRUE,{r})', '=IFERROR({r},1)', '=LEFT({r},1)', '=RIGHT("ab",{r})',
                 '=MID({r},1,1)', '=NETWORKDAYS({r},{r},{r})', '=YEAR({r})', '=DATE({r},1,1)', '=ROUND({r},1)', '=ROUNDUP(1.5,{r})',
                 '=ADDRESS(1,{r})', '={r}&"x"', '=-{r}%', '=CONCATENATE({r},1)', '=VALUE({r})', '=SEARCH("a",{r})', '=EDATE({r},1)',
                 '=EOMONTH({r},1)', '=DATEDIF({r},{r},"D")', '=DAY({r})', '=MONTH({r})', '=1+{r}*2', '={r}={r}']

_TMP = None
_FILE_NO = [0]


def tmpdir():
    global _TMP
    if _TMP is None:
        import atexit
        _TMP = tempfile.mkdtemp(prefix='c06-')
        atexit.register(shutil.rmtree, _TMP, True)
    return _TMP


def budget():
    return float(os.environ.get('C06_BUDGET', '5'))


def build(sheets):
    from openpyxl import Workbook
    import io
    wb = Workbook()
    wb.remove(wb.active)
    for title, cells in sheets:
        ws = wb.create_sheet(title=title)
        for addr, v in cells.items():
            if isinstance(v, (tuple, list)) and v and v[0] == '$array':
                ws[addr] = ArrayFormula(f'{addr}:{addr}', v[1])
            else:
                ws[addr] = v
    bio = io.BytesIO()
    wb.save(bio)
    bio.seek(0)
    return bio


def norm_const(v):
    if type(v) is datetime.date:
        return DT(v.year, v.month, v.day)
    if isinstance(v, float) and v.is_integer() and abs(v) < 1e15:
        return int(v)
    return v


def is_formula(v):
    return isinstance(v, str) and v.startswith('=') or isinstance(v, (tuple, list)) and v and v[0] == '$array'


def examine(sheets, stats, file_mode=False, entry=None):
    """-> None when the outcome is acceptable, else (label, detail)."""
    try:
        bio = build(sheets)
    except Exception as e:  # noqa  - the workbook cannot be written: not a readable workbook
        stats['x:unwritable'] += 1
        return None
    kind, text = D.translate(bio, entry=entry, budget=budget())
    stats['transitions'] += 1
    stats['out:' + kind] += 1
    if kind.startswith('LIB_EXC'):
        return None
    if kind != 'TEXT':
        return (kind, text)
    if not isinstance(text, str):
        return ('NOT_TEXT', repr(text)[:100])
    k2, cls, ns = D.load_class(text)
    if k2 != 'CLASS':
        return (k2, cls)
    try:
        inst = cls()
    except Exception as e:  # noqa
        return ('INSTANTIATE:' + type(e).__name__, str(e)[:200])
    titles = {t: i for i, (t, _) in enumerate(sheets)}
    try:
        if inst.get_titles() != titles:
            return ('TITLES', {'expected': titles, 'got': inst.get_titles()})
        if entry is None:
            sizes = []
            for t, cells in sheets:
                cols = [D.split_a1(a) for a in cells]
                from openpyxl.utils import column_index_from_string
                sizes.append({'last_column': max((column_index_from_string(c) for c, r in cols), default=0),
                              'last_row': max((int(r) for c, r in cols), default=0)})
            if inst.get_sheets_size() != sizes:
                return ('SIZES', {'expected': sizes, 'got': inst.get_sheets_size()})
    except Exception as e:  # noqa
        return ('ACCESSOR:' + type(e).__name__, str(e)[:200])
    stats['validated'] += 1
    if entry is not None:
        return None
    ex = D.new_executor(cls)
    values = {}
    for si, (t, cells) in enumerate(sheets):
        for addr, v in cells.items():
            col, row = D.split_a1(addr)
            uid = D.Cell(si, D.column_index(col) - 1, int(row) - 1).uid
            if not callable(getattr(cls, uid, None)):
                return ('NO_MEMBER', {'cell': f'{t}!{addr}', 'uid': uid})
            o = D.eval_cell(ex, si, D.column_index(col) - 1, int(row) - 1, budget=budget())
            stats['evaluations'] += 1
            values[(si, addr)] = o
            if o[0] == 'TIMEOUT':
                return ('EVAL_TIMEOUT', {'cell': f'{t}!{addr}'})
            if not is_formula(v):
                w = norm_const(v)
                if isinstance(w, datetime.timedelta):
                    continue  # a duration has no single agreed reading (openpyxl returns a time / timedelta)
                if isinstance(w, float) and float('%.16g' % w) != w:
                    continue
                if isinstance(w, int) and not isinstance(w, bool) and abs(w) >= 2 ** 53:
                    continue  # xlsx stores numbers as doubles
                if not (o[0] == 'VALUE' and type(o[1]) is type(w) and o[1] == w):
                    return ('CONSTANT', {'cell': f'{t}!{addr}', 'expected': D.enc(w), 'got': D.enc(o[1]) if o[0] == 'VALUE' else list(o)})
    if file_mode:
        # the file name rotates through names of modules the generated runtime imports (and stays the same path in between,
        # so that a later translation is loaded from a path an earlier one was loaded from)
        _FILE_NO[0] += 1
        stem = ('gen_%d' % os.getpid(), 'calendar', 're', 'gen_%d' % os.getpid(), 'decimal', 'string', 'math')[_FILE_NO[0] % 7]
        path = os.path.join(tmpdir(), stem + '.py')
        bio.seek(0)
        p = D.Parser().disable_safety_check().set_excel_file_path(bio)
        try:
            p.write_translation(path)
            written = open(path, encoding='utf-8').read()
        except Exception as e:  # noqa
            return ('WRITE:' + type(e).__name__, str(e)[:200])
        if written != text:
            return ('FILE_TEXT_DIFFERS', {'len_text': len(text), 'len_file': len(written)})
        try:
            ex2 = D.Executor().set_executed_class(class_file=path)
        except BaseException as e:  # noqa
            if isinstance(e, (KeyboardInterrupt, D.CaseTimeout)):
                raise
            return ('FILE_LOAD:' + type(e).__name__, str(e)[:200])
        for si, (t, cells) in enumerate(sheets):
            for addr in cells:
                col, row = D.split_a1(addr)
                o2 = D.eval_cell(ex2, si, D.column_index(col) - 1, int(row) - 1, budget=budget())
                o1 = values[(si, addr)]
                a = (o1[0], D.enc(o1[1]) if o1[0] == 'VALUE' else None)
                b = (o2[0], D.enc(o2[1]) if o2[0] == 'VALUE' else None)
                if a != b:
                    return ('FILE_VS_OBJECT', {'cell': f'{t}!{addr}', 'object': a, 'file': b})
        stats['x:file_mode_checked'] += 1
    return None


def report(vio, i, label, detail, desc):
    vio.append({'i': i, 'desc': dict(desc, outcome=label), 'expected': 'library exception or a loadable, faithful class',
                'observed': D.enc(detail) if not isinstance(detail, str) else detail[:400]})


# ---------------------------------------------------------------------------------------------
# runners

NEIGHBOURS = {'A1': 3, 'B1': 'x', 'A2': '=A1+1'}


def run_soup(cases, stats):
    vio = []
    for i, c in enumerate(cases):
        text = '=' + c['j'].join(TOK[k] for k in c['t'])
        stats['nontrivial'] += 1
        cells = {'C3': text}
        if c.get('nb'):
            cells.update(NEIGHBOURS)
        bad = examine([('S', cells)], stats, file_mode=(i % 16 == 0))
        if bad:
            report(vio, i, bad[0], bad[1], {'shape': 'token-soup', 'tokens': sorted(set(TOK[k] for k in c['t'])), 'len': len(c['t']),
                                             'neighbours': bool(c.get('nb')), 'formula': text})
    return vio


def run_text(cases, stats):
    """cases carry the formula text (or constant) directly: {'v': value, 'shape': ..}"""
    vio = []
    for i, c in enumerate(cases):
        v = D.dec(c['v'])
        if isinstance(v, list) and v and v[0] == '$array':
            v = tuple(v)
        cells = dict(corpus.DATA)
        cells['G1'] = v
        if c.get('also'):
            cells['G2'] = c['also']
        stats['nontrivial'] += 1
        bad = examine([('D', cells)], stats, file_mode=(i % 8 == 0))
        if bad:
            report(vio, i, bad[0], bad[1], {'shape': c['shape'], 'value': str(c['v'])[:80]})
    return vio


def run_consts(cases, stats):
    vio = []
    for i, c in enumerate(cases):
        s = c['s']
        cells = {'A1': s, 'B2': 1, 'C1': '=A1', 'D4': '=A1&"x"', 'A3': s + 'tail', 'E1': ' ' + s}
        cells = {a: v for a, v in cells.items() if v != ''}
        stats['nontrivial'] += 1
        bad = examine([('S', cells)], stats, file_mode=(i % 4 == 0))
        if bad:
            report(vio, i, bad[0], bad[1], {'shape': 'text-constant', 'chars': sorted(set(s))})
    return vio


def legal_title(t):
    return 0 < len(t) <= 31 and not t.startswith("'") and not t.endswith("'") and not any(ch in t for ch in '\\/?*[]:')


def run_titles(cases, stats):
    vio = []
    for i, c in enumerate(cases):
        t = c['t']
        q = "'" + t.replace("'", "''") + "'"
        for layout in range(3):
            if layout == 0:
                sheets = [(t, {'A1': 5, 'B1': f'={q}!A1+1'})]
            elif layout == 1:
                sheets = [('First', {'A1': f'={q}!A1*2', 'B2': f'=SUM({q}!A1:A2)'}), (t, {'A1': 5, 'A2': 6})]
            else:
                sheets = [(t, {'A1': 1}), ('Mid', {'C1': f'={q}!A1&"|"'}), (t + 'x', {'A1': f'={q}!A1', 'B1': 2})]
            stats['nontrivial'] += 1
            bad = examine(sheets, stats, file_mode=(layout == 1))
            if bad:
                report(vio, i, bad[0], bad[1], {'shape': 'title', 'chars': sorted(set(t)), 'layout': layout, 'title': t})
                break
        else:
            # the same title on a workbook the enabled safety check refuses: the refusal is the library's exception,
            # whatever the title and the offending text look like (both end up in its message)
            for frag in ('eval(1)', 'print({})', 'f("%s" % x)'):
                kind, text = D.translate(build([(t, {'A1': 5, 'B2': frag})]), safety=True, budget=budget())
                stats['transitions'] += 1
                stats['out:' + kind] += 1
                if kind != 'LIB_EXC:safety':
                    report(vio, i, 'safety-refusal', [kind, str(text)[:200]], {'shape': 'title', 'chars': sorted(set(t)), 'layout': 'unsafe',
                                                                               'title': t})
                    break
    return vio


def nest_formula(shape, d):
    if shape == 'brackets':
        return '=' + '(' * d + 'A1' + ')' * d
    if shape == 'brackets-ops':
        return '=' + '(' * d + 'A1+1' + ')*2' * d
    if shape == 'if':
        f = 'A1'
        for k in range(d):
            f = f'IF(A1>{k},{f},{k})'
        return '=' + f
    if shape == 'if-else':
        f = '0'
        for k in range(d):
            f = f'IF(A1={k},{k},{f})'
        return '=' + f
    if shape == 'sum':
        f = 'A1'
        for k in range(d):
            f = f'SUM({f},1)'
        return '=' + f
    if shape == 'round-args':
        f = 'A1'
        for k in range(d):
            f = f'ROUND({f}+1,{k % 3})'
        return '=' + f
    if shape == 'signs':
        return '=' + '-' * d + 'A1'
    if shape == 'amp':
        return '=' + '&'.join(['A1'] * (d + 1))
    if shape == 'plus':
        return '=' + '+'.join(['A1'] * (d + 1))
    if shape == 'iferror':
        f = '1/0'
        for k in range(d):
            f = f'IFERROR({f},{k}/0)'
        return '=' + f
    if shape == 'long-number':
        return '=' + '1' + '0' * d + '+1'
    if shape == 'long-decimal':
        return '=0.' + '3' * d
    if shape == 'long-name':
        return '=' + 'N' * (d + 1)
    if shape == 'long-call':
        return '=' + 'F' * (d + 1) + '(1)'
    if shape == 'long-text':
        return '="' + 'ab_' * d + '"&A1'
    if shape == 'long-title-ref':
        return '=' + 'T' * (d + 1) + '!A1'
    if shape == 'unclosed-brackets':
        return '=' + '(' * d + 'A1+1'
    if shape == 'unclosed-mixed':
        return '=' + '(A1+' * d + '1'
    if shape == 'unclosed':
        return '=' + 'SUM(' * d + '1'
    if shape == 'overclosed':
        return '=1' + ')' * d
    raise AssertionError(shape)


SHAPES = ['brackets', 'brackets-ops', 'if', 'if-else', 'sum', 'round-args', 'signs', 'amp', 'plus', 'iferror', 'unclosed', 'overclosed',
          'unclosed-brackets', 'unclosed-mixed', 'long-number', 'long-decimal', 'long-name', 'long-call', 'long-text', 'long-title-ref']


def run_nesting(cases, stats):
    vio = []
    for i, c in enumerate(cases):
        shape, d = c['shape'], c['d']
        if shape in ('chain', 'rchain', 'chain-sheets'):
            n = d
            if shape == 'chain':
                cells = {'A1': 1}
                cells.update({f'A{k}': f'=A{k - 1}+1' for k in range(2, n + 1)})
                sheets = [('S', cells)]
            elif shape == 'rchain':
                cells = {f'A{n}': 1}
                cells.update({f'A{k}': f'=A{k + 1}+1' for k in range(1, n)})
                sheets = [('S', cells)]
            else:
                a = {f'A{k}': (f'=T!A{k}+1' if k < n else 1) for k in range(1, n + 1)}
                b = {f'A{k}': f'=S!A{k + 1}+1' for k in range(1, n)}
                sheets = [('S', a), ('T', b)]
        else:
            sheets = [('S', {'A1': 1, 'B1': nest_formula(shape, d)})]
        if d > 8:
            stats['nontrivial'] += 1
        bad = examine(sheets, stats, file_mode=(d % 8 == 1))
        if bad:
            report(vio, i, bad[0], bad[1], {'shape': shape, 'depth': d, 'depth_min': d})
        # the same workbook translated from an entry cell (head of the chain / the nested formula), numeric and A1 addressing
        for entry in ((0, 0, 0), ('S', 'B' if shape not in ('chain', 'rchain', 'chain-sheets') else 'A', '1'),
                      ('S', 'A', str(d)) if shape in ('chain', 'rchain') else None):
            if entry is None:
                continue
            bad = examine(sheets, stats, entry=list(entry))
            if bad:
                report(vio, i, bad[0], bad[1], {'shape': shape, 'depth': d, 'depth_min': d, 'entry': str(entry)})
    return vio


# ---------------------------------------------------------------------------------------------

def plan(tier, seed):
    th = tier == 'thorough'
    n_full, n_small = (4, 5) if th else (3, 4)
    sl = 3 if th else 2
    tl = 3 if th else 2
    depths = list(range(1, 41)) + [48, 64, 96, 128, 200, 300] if th else list(range(1, 21)) + [32, 64]
    chains = [1, 2, 3, 10, 50, 100, 150, 190, 200, 250, 400, 1000] + ([2000, 5000] if th else [])

    def soups():
        for n in range(0, n_full + 1):
            for t in itertools.product(range(len(TOK)), repeat=n):
                yield {'t': list(t), 'j': ''}
        small = [TOK.index(x) for x in TOK_SMALL]
        for t in itertools.product(small, repeat=n_small):
            yield {'t': list(t), 'j': ''}
        for n in range(1, 3):
            for t in itertools.product(range(len(TOK)), repeat=n):
                yield {'t': list(t), 'j': ' ', 'nb': True}

    def truncations():
        for name, f in corpus.CORPUS:
            for k in range(1, len(f)):
                yield {'v': f[:k], 'shape': 'prefix:' + name.split('/')[0]}
            for k in range(1, len(f) - 1):
                yield {'v': f[:k] + f[k + 1:], 'shape': 'char-deleted:' + name.split('/')[0]}
        for v in CONSTS:
            yield {'v': D.enc(list(v) if isinstance(v, tuple) else v), 'shape': 'constant-or-odd-formula'}
            if isinstance(v, str):
                yield {'v': v, 'shape': 'odd-formula-next-to-good', 'also': '=SUM(A1:A3)'}
        for pos in REF_POSITIONS:
            for r in ODD_REFS:
                yield {'v': pos.format(r=r), 'shape': 'odd-reference:' + pos.split('(')[0].lstrip('=')[:12]}

    def strings():
        for s in ('\U0001F4CA', 'a\U00020000b', '\u00e9', '\u2028x', '\ufeff', 'tab\there', '\x7f', '\u0085', '\\N{BULLET}', '\\x41', '\\u0041'):
            yield {'s': s}
        for n in range(0, sl + 1):
            for t in itertools.product(CHARS, repeat=n):
                s = ''.join(t)
                if s.startswith('=') or s == '':
                    continue
                yield {'s': s}

    def titles():
        for n in range(1, tl + 1):
            for t in itertools.product(TITLE_CHARS, repeat=n):
                s = ''.join(t)
                if legal_title(s) and legal_title(s + 'x') and s.strip() == s:
                    yield {'t': s}
        for s in ('Sheet1', '2020', 'A1', 'R1C1', 'TRUE', 'SUM', "it's", 'a.b', 'Лист 1', 'x' * 31, 'a!b', 'a b', '#REF', '=1',
                  'Sales \U0001F4CA', '\U00020000', 'caf\u00e9', '\u200b', 'a\tb', '\u2028', 'a\x7fb', 'nul\x00'[:3], '\ud7ff', '\uffff'[:0] + 'z\ufeff'):
            yield {'t': s}

    def nests():
        for shape in SHAPES:
            for d in depths:
                yield {'shape': shape, 'd': d}
        for shape in ('chain', 'rchain', 'chain-sheets'):
            for n in chains:
                yield {'shape': shape, 'd': n}

    return [
        {'name': 'token-soups', 'cases': soups(), 'runner': 'run_soup', 'chunk': 100},
        {'name': 'truncated-and-odd-formulas', 'cases': truncations(), 'runner': 'run_text', 'chunk': 40},
        {'name': 'text-constants', 'cases': strings(), 'runner': 'run_consts', 'chunk': 40},
        {'name': 'sheet-titles', 'cases': titles(), 'runner': 'run_titles', 'chunk': 20},
        {'name': 'nesting-and-chains', 'cases': nests(), 'runner': 'run_nesting', 'chunk': 4},
    ]
