"""C17 - text functions obey the substring algebra.  BE over all texts up to a length bound x count/position boxes."""
import datetime
import itertools
import re
from decimal import Decimal

from mc import driver as D
from mc import sweep as S
from mc.ref import formula as R

PROP = 'C17'
RULE = ('complete products: all texts of length 0..3 (4 thorough) over {a,B,?,*,~,.,(} x n in -1..len+2 for LEFT/RIGHT '
        '(and n omitted), x k,n in -1..len+2 for MID, and the identity LEFT(t,n)&MID(t,n+1,len)=t for 0<=n<len, texts as '
        'overrides (the length<=2 subset also as workbook constants and literals); SEARCH over all find texts of length '
        '1..3 over {a,B,.,*,?,~} x all within texts of length 1..3 (4 thorough) over {a,A,b,.,*} x start in '
        '{omitted,1..len+1}; & and CONCATENATE over all ordered pairs and triples of 10 operand values; VALUE over the '
        'decimal grid texts with sign, padding and integer percents; non-trivial = clipped slices, empty results, errors, '
        'wildcard / case-differing searches, non-text operands')
ASSUMPTIONS = ['find texts whose ~ is not followed by ? * or ~ are explored, not judged', 'numeric first operands of '
               'LEFT/RIGHT/MID are not enumerated (the statement speaks of texts)', 'SEARCH start 0/negative is not enumerated',
               'results must be str: a blank object standing in for an empty text is a different value',
               'date-times with a time part have no fixed text form and are not enumerated']

TCHARS = ['a', 'B', '?', '*', '~', '.', '(']
FCHARS = ['a', 'B', '.', '*', '?', '~']
WCHARS = ['a', 'A', 'b', '.', '*']
DT = datetime.datetime

SCAFFOLD = [('S', {
    'A1': 'abc', 'B1': 1, 'C1': 1, 'D1': 3,
    'E1': '=LEFT(A1,B1)', 'F1': '=RIGHT(A1,B1)', 'G1': '=MID(A1,B1,C1)', 'H1': '=LEFT(A1)', 'I1': '=RIGHT(A1)',
    'J1': '=LEFT(A1,B1)&MID(A1,B1+1,D1)',
    # arguments that are expressions / bracketed / read through a formula cell
    # the text argument is a cell that was never written (blank: it behaves as the empty text)
    'AH1': '=LEFT(AZ9,B1)', 'AI1': '=RIGHT(AZ9,B1)', 'AJ1': '=MID(AZ9,B1,C1)', 'AK1': '=RIGHT(AZ9)', 'AL1': '=LEFT(AZ9)',
    'AM1': '=LEFT(AZ9,1)&RIGHT(AZ9,B1)&"|"',
    # the text argument is an operator expression that starts with a cell reference
    'AC1': '=LEFT(A1&"zq",B1)', 'AD1': '=RIGHT("zq"&A1,B1)', 'AE1': '=MID(A1&"zq",B1,C1)', 'AF1': '=LEFT(A1&A1,B1)', 'AG1': '=RIGHT(A1&"zq",B1)',
    'X1': '=A1', 'Y1': '=LEFT(A1&"",B1+0)', 'Z1': '=RIGHT((A1),(B1))', 'AA1': '=MID(X1,B1*1,C1+0)', 'AB1': '=LEFT(X1,B1)&""',
    'K1': 'a', 'L1': '=SEARCH(K1,A1)', 'M1': '=SEARCH(K1,A1,B1)',
    'N1': '=VALUE(A1)', 'N2': '=VALUE(A1)=A1', 'N3': '=VALUE(A1+0)',
    'P1': 1, 'Q1': 2, 'R1': 3,
    'S1': '=P1&Q1', 'T1': '=CONCATENATE(P1,Q1)', 'U1': '=P1&Q1&R1', 'V1': '=CONCATENATE(P1,Q1,R1)',
    'W1': '=CONCATENATE(P1)',
    # & next to arithmetic: the operands of & are the whole sums / products on either side of it
    'S2': '=P1&Q1+1', 'T2': '=P1&Q1-1&R1', 'U2': '=Q1+1&P1', 'V2': '=P1&Q1*2&R1', 'W2': '=CONCATENATE(P1,Q1+1)',
})]


def texts(chars, lo, hi):
    for n in range(lo, hi + 1):
        for t in itertools.product(chars, repeat=n):
            yield ''.join(t)


# ---------------------------------------------------------------------------------------------
# reference

ERR = R.Err('ANY')


def ref_left(t, n):
    if n is None:
        n = 1
    return ERR if n < 0 else t[:n]


def ref_right(t, n):
    if n is None:
        n = 1
    if n < 0:
        return ERR
    return t[len(t) - n:] if n < len(t) else t


def ref_mid(t, k, n):
    if k < 1 or n < 0:
        return ERR
    return t[k - 1:k - 1 + n]


def find_regex(f):
    """Excel wildcard text -> regex source, or None when the statement does not fix its meaning."""
    out = []
    i = 0
    while i < len(f):
        c = f[i]
        if c == '~':
            if i + 1 < len(f) and f[i + 1] in '?*~':
                out.append(re.escape(f[i + 1]))
                i += 2
                continue
            return None
        out.append('.' if c == '?' else ('.*' if c == '*' else re.escape(c)))
        i += 1
    return ''.join(out)


def ref_search(f, t, s):
    if s is None:
        s = 1
    if s < 1 or s > len(t):
        return R.Err('VALUE')
    rx = find_regex(f)
    if rx is None:
        raise R.Unspecified('tilde')
    m = re.compile(rx, re.I | re.S).search(t, s - 1)
    return m.start() + 1 if m else R.Err('VALUE')


def same(ref, o, named=False):
    ok, _ = R.same_value(ref, o, named_errors=named)
    return ok


def _v(vio, i, desc, o, exp):
    k, _ = o
    desc['outcome'] = 'VALUE_MISMATCH' if k == 'VALUE' else k
    vio.append({'i': i, 'desc': desc, 'expected': repr(exp) if isinstance(exp, R.Err) else D.enc(exp), 'observed': S.obs(o)})


def chars_of(t):
    return sorted(set(c for c in t if c in '?*~.('))


# ---------------------------------------------------------------------------------------------
# plan

CONCAT_VALUES = [3, 2.5, 2.0, -1, 'x', '', True, False, None, DT(2020, 1, 31), 0.1 + 0.2, 1234567.125]


def plan(tier, seed):
    th = tier == 'thorough'
    L = 4 if th else 3
    FL, WL = (3, 4) if th else (3, 3)

    def slice_cases(hi):
        for t in texts(TCHARS, 0, hi):
            yield {'t': t}
        # characters that Python code would escape (a literal is not to be cut in its escaped spelling)
        for t in ('a\\b', 'x\ny', '\\', 'a\tb\\'):
            yield {'t': t}

    def search_cases():
        for f in texts(FCHARS, 1, FL):
            yield {'f': f, 'wl': WL}
        # case clause on longer words (a list, not a sample)
        for f, w in (('B', 'abAB'), ('ab', 'xxABab'), ('b?', 'aBcb'), ('~?', 'a?b'), ('A*b', 'xaYYB'), ('(', 'a(b'),
                     ('.', 'ab.c'), ('a.', 'abca.'), ('[', 'a[b'), ('\\', 'a\\b'), ('^a', 'a^a'), ('a$', 'aa$'), ('+', 'a+'),
                     ('a|b', 'xa|b'), ('{2}', 'a{2}'), ('~~', 'a~b'), ('~~?', 'a~b')):
            yield {'f': f, 'w': w}

    def search_sub():
        for f in ('a', 'B', '.', '*a', 'a?', '~*', 'b*.', '?'):
            for w in ('ab', 'AB', 'a.b', 'b*a', 'xxb.'):
                yield {'f': f, 'w': w}
        # a backslash in front of a wildcard / of a letter Python would read as an escape, in texts written in the formula
        for f, w in (('\\\\?', 'ab\\\\x'), ('\\n*', 'a\\nb'), ('?\\t', 'ab\\tc'), ('\\\\*', 'x\\\\'), ('\\?', 'a\\b'), ('*\\x41', 'a\\x41'),
                     ('\\u0041?', 'z\\u0041b')):
            yield {'f': f, 'w': w}

    def concat_cases():
        n = len(CONCAT_VALUES)
        for i in range(n):
            for j in range(n):
                yield {'ix': [i, j]}
        tri = range(n) if th else (0, 2, 4, 5, 6, 8, 9)
        for i in tri:
            for j in tri:
                for k in tri:
                    yield {'ix': [i, j, k]}

    def value_cases():
        from mc.props.c16 import grid
        for x in grid(3 if th else 2):
            yield {'x': x}
        for x in ('5%', '12%', '-3%', '100%', '0%', '1e3', '1.5e-3', '+2', '+2.5', '007', '1e0', '12345678901234', '0.000001'):
            yield {'x': x}

    return [
        {'name': 'slices-override', 'cases': slice_cases(L), 'runner': 'run_slice_ov', 'chunk': 40},
        {'name': 'slices-constant', 'cases': slice_cases(2), 'runner': 'run_slice_cell', 'chunk': 8},
        {'name': 'slices-literal', 'cases': slice_cases(2), 'runner': 'run_slice_lit', 'chunk': 8},
        {'name': 'search-override', 'cases': search_cases(), 'runner': 'run_search_ov', 'chunk': 4},
        {'name': 'search-constant-literal', 'cases': search_sub(), 'runner': 'run_search_items', 'chunk': 20},
        {'name': 'concat-override', 'cases': concat_cases(), 'runner': 'run_concat_ov', 'chunk': 200},
        {'name': 'concat-constant-literal', 'cases': concat_cases(), 'runner': 'run_concat_items', 'chunk': 100},
        {'name': 'value-override', 'cases': value_cases(), 'runner': 'run_value_ov', 'chunk': 500},
        {'name': 'value-constant-literal', 'cases': value_cases(), 'runner': 'run_value_items', 'chunk': 200},
    ]


# ---------------------------------------------------------------------------------------------
# LEFT / RIGHT / MID

def judge_slices(t, n, outs, src, stats, i, vio):
    """outs: dict name -> outcome for LEFT, RIGHT (count n) ; judged one (t, n) point."""
    L = len(t)
    for name, fn in (('LEFT', ref_left), ('RIGHT', ref_right)):
        if name not in outs:
            continue
        want = fn(t, n)
        stats['validated'] += 1
        if isinstance(want, R.Err) or want == '' or (n is not None and n > L):
            stats['nontrivial'] += 1
        o = outs[name]
        stats['out:' + S.out_label(o)] += 1
        if not same(want, o):
            _v(vio, i, {'func': name, 'src': src, 'chars': chars_of(t), 'empty_result': want == '', 'empty_text': t == '',
                        'count': 'omitted' if n is None else ('neg' if n < 0 else ('zero' if n == 0 else ('over' if n > L else 'in')))},
               o, want)


def judge_mid(t, k, n, o, src, stats, i, vio):
    want = ref_mid(t, k, n)
    stats['validated'] += 1
    if isinstance(want, R.Err) or want == '' or k - 1 + n > len(t):
        stats['nontrivial'] += 1
    if not same(want, o):
        _v(vio, i, {'func': 'MID', 'src': src, 'chars': chars_of(t), 'empty_result': want == '', 'empty_text': t == '',
                    'start': 'lt1' if k < 1 else ('past' if k > len(t) else 'in'), 'count': 'neg' if n < 0 else ('zero' if n == 0 else 'pos')},
           o, want)


def judge_identity(t, n, o, src, stats, i, vio):
    stats['validated'] += 1
    stats['nontrivial'] += 1
    if not same(t, o):
        _v(vio, i, {'func': 'LEFT&MID', 'src': src, 'chars': chars_of(t), 'split': 'zero' if n == 0 else 'inner'}, o, t)


def run_slice_ov(cases, stats):
    cls = S.get_class(SCAFFOLD, stats=stats)
    vio = []
    for i, c in enumerate(cases):
        t = c['t']
        L = len(t)
        o = S.run(cls, [('A1', t)], ['H1', 'I1'], stats)
        judge_slices(t, None, {'LEFT': o[0], 'RIGHT': o[1]}, 'ov', stats, i, vio)
        if t == '':
            # the same slices of a blank cell
            o = S.run(cls, [], ['AL1', 'AK1'], stats)
            judge_slices('', None, {'LEFT': o[0], 'RIGHT': o[1]}, 'blank-cell', stats, i, vio)
            for n in range(-1, 3):
                o = S.run(cls, [('B1', n)], ['AH1', 'AI1', 'AM1'], stats)
                judge_slices('', n, {'LEFT': o[0], 'RIGHT': o[1]}, 'blank-cell', stats, i, vio)
                if n >= 0:
                    stats['validated'] += 1
                    if not same('|', o[2]):
                        _v(vio, i, {'func': 'LEFT&RIGHT', 'src': 'blank-cell', 'chars': [], 'count': 'zero' if n == 0 else 'inner'}, o[2], '|')
                for k in range(-1, 3):
                    o, = S.run(cls, [('B1', k), ('C1', n)], ['AJ1'], stats)
                    judge_mid('', k, n, o, 'blank-cell', stats, i, vio)
        for n in range(-1, L + 3):
            o = S.run(cls, [('A1', t), ('B1', n)], ['E1', 'F1', 'Y1', 'Z1', 'AB1'], stats)
            stats['cases'] += 1
            judge_slices(t, n, {'LEFT': o[0], 'RIGHT': o[1]}, 'ov', stats, i, vio)
            judge_slices(t, n, {'LEFT': o[2], 'RIGHT': o[3]}, 'ov-expression-arguments', stats, i, vio)
            judge_slices(t, n, {'LEFT': o[4]}, 'ov-through-cell', stats, i, vio)
            # the text argument is an operator expression that starts (ends) with the cell
            o = S.run(cls, [('A1', t), ('B1', n)], ['AC1', 'AD1', 'AF1', 'AG1'], stats)
            judge_slices(t + 'zq', n, {'LEFT': o[0], 'RIGHT': o[3]}, 'ov-joined-text-argument', stats, i, vio)
            judge_slices('zq' + t, n, {'RIGHT': o[1]}, 'ov-joined-text-argument', stats, i, vio)
            judge_slices(t + t, n, {'LEFT': o[2]}, 'ov-joined-text-argument', stats, i, vio)
            for k in range(-1, L + 3):
                o = S.run(cls, [('A1', t), ('B1', k), ('C1', n)], ['G1', 'AA1'], stats)
                stats['cases'] += 1
                judge_mid(t, k, n, o[0], 'ov', stats, i, vio)
                judge_mid(t, k, n, o[1], 'ov-expression-arguments', stats, i, vio)
                if k <= 2:
                    o, = S.run(cls, [('A1', t), ('B1', k), ('C1', n)], ['AE1'], stats)
                    judge_mid(t + 'zq', k, n, o, 'ov-joined-text-argument', stats, i, vio)
            if 0 <= n < L:
                o, = S.run(cls, [('A1', t), ('B1', n), ('D1', L)], ['J1'], stats)
                judge_identity(t, n, o, 'ov', stats, i, vio)
    return vio


def _slice_items(cases, literal):
    items, index = [], []
    for ci, c in enumerate(cases):
        t = c['t']
        if not literal and t == '':
            continue  # an xlsx cell cannot hold an empty text
        L = len(t)
        T = '"' + t + '"' if literal else 'A@0'
        cells = {} if literal else {'A@0': t}
        f = {'H@0': f'=LEFT({T})', 'I@0': f'=RIGHT({T})'}
        meta = {'H@0': ('LR1',), 'I@0': ('LR1',)}
        row = 1
        for n in range(-1, L + 3):
            f[f'E@{row}'] = f'=LEFT({T},{n})'
            f[f'F@{row}'] = f'=RIGHT({T},{n})'
            meta[f'E@{row}'] = ('L', n)
            meta[f'F@{row}'] = ('R', n)
            if 0 <= n < L:
                f[f'J@{row}'] = f'=LEFT({T},{n})&MID({T},{n}+1,{L})'
                meta[f'J@{row}'] = ('ID', n)
            for j, k in enumerate(range(-1, L + 3)):
                col = 'KLMNOPQR'[j]
                f[f'{col}@{row}'] = f'=MID({T},{k},{n})'
                meta[f'{col}@{row}'] = ('M', k, n)
            row += 1
        items.append({'f': f, 'cells': cells, 'h': row + 1})
        index.append((ci, t, meta))
    return items, index


def _run_slice_items(cases, stats, literal):
    src = 'lit' if literal else 'cell'
    items, index = _slice_items(cases, literal)
    raw = D.eval_items(items, stats=stats)
    vio = []
    for (ci, t, meta), r in zip(index, raw):
        for addr, m in meta.items():
            o = r[addr]
            if m[0] == 'LR1':
                judge_slices(t, None, {'LEFT' if addr[0] == 'H' else 'RIGHT': o}, src, stats, ci, vio)
            elif m[0] in 'LR':
                judge_slices(t, m[1], {'LEFT' if m[0] == 'L' else 'RIGHT': o}, src, stats, ci, vio)
            elif m[0] == 'ID':
                judge_identity(t, m[1], o, src, stats, ci, vio)
            else:
                judge_mid(t, m[1], m[2], o, src, stats, ci, vio)
    return vio


def run_slice_cell(cases, stats):
    return _run_slice_items(cases, stats, False)


def run_slice_lit(cases, stats):
    return _run_slice_items(cases, stats, True)


# ---------------------------------------------------------------------------------------------
# SEARCH

def judge_search(f, w, s, o, src, stats, i, vio):
    try:
        want = ref_search(f, w, s)
    except R.Unspecified:
        stats['x:not_judged'] += 1
        return
    stats['validated'] += 1
    plain = find_regex(f) == re.escape(f)
    case_differs = plain and f.lower() in w.lower() and f not in w
    if not plain or case_differs or isinstance(want, R.Err):
        stats['nontrivial'] += 1
    stats['out:' + S.out_label(o)] += 1
    if not same(want, o, named=True):
        _v(vio, i, {'func': 'SEARCH', 'src': src, 'chars': sorted(set(c for c in f if not c.isalnum())),
                    'within_chars': sorted(set(c for c in w if not c.isalnum())), 'case_differs': case_differs,
                    'start': 'omitted' if s is None else ('one' if s == 1 else ('past_end' if s > len(w) else 'later')),
                    'found': not isinstance(want, R.Err)}, o, want)


def run_search_ov(cases, stats):
    cls = S.get_class(SCAFFOLD, stats=stats)
    vio = []
    for i, c in enumerate(cases):
        f = c['f']
        ws = [c['w']] if 'w' in c else texts(WCHARS, 1, c['wl'])
        for w in ws:
            o, = S.run(cls, [('K1', f), ('A1', w)], ['L1'], stats)
            stats['cases'] += 1
            judge_search(f, w, None, o, 'ov', stats, i, vio)
            for s in range(1, len(w) + 2):
                o, = S.run(cls, [('K1', f), ('A1', w), ('B1', s)], ['M1'], stats)
                stats['cases'] += 1
                judge_search(f, w, s, o, 'ov', stats, i, vio)
    return vio


def run_search_items(cases, stats):
    items, meta = [], []
    for c in cases:
        f, w = c['f'], c['w']
        fm = {'C@0': '=SEARCH(A@0,B@0)', 'D@0': f'=SEARCH("{f}","{w}")', 'E@0': f'=SEARCH("{f}",B@0)', 'F@0': f'=SEARCH(A@0,"{w}")'}
        m = {'C@0': ('cell', None), 'D@0': ('lit', None), 'E@0': ('lit-find', None), 'F@0': ('lit-within', None)}
        for s in range(1, len(w) + 2):
            fm[f'C@{s}'] = f'=SEARCH(A@0,B@0,{s})'
            fm[f'D@{s}'] = f'=SEARCH("{f}","{w}",{s})'
            m[f'C@{s}'] = ('cell', s)
            m[f'D@{s}'] = ('lit', s)
        items.append({'f': fm, 'cells': {'A@0': f, 'B@0': w}, 'h': len(w) + 3})
        meta.append(m)
    raw = D.eval_items(items, stats=stats)
    vio = []
    for i, (c, m, r) in enumerate(zip(cases, meta, raw)):
        for addr, (src, s) in m.items():
            judge_search(c['f'], c['w'], s, r[addr], src, stats, i, vio)
    return vio


# ---------------------------------------------------------------------------------------------
# & / CONCATENATE

def kind(v):
    return ('blank' if v is None else 'bool' if isinstance(v, bool) else 'int' if isinstance(v, int) else
            'float' if isinstance(v, float) else 'text' if isinstance(v, str) else 'date')


def judge_concat(vals, outs, src, stats, i, vio):
    try:
        want = ''.join(R.text_form(v) for v in vals)
    except R.Unspecified:
        stats['x:not_judged'] += 1
        return
    if any(not isinstance(v, str) for v in vals):
        stats['nontrivial'] += 1
    for form, o in outs.items():
        stats['validated'] += 1
        stats['out:' + S.out_label(o)] += 1
        if not same(want, o):
            _v(vio, i, {'func': form, 'src': src, 'kinds': sorted(set(kind(v) for v in vals)), 'arity': len(vals)}, o, want)


def run_concat_ov(cases, stats):
    cls = S.get_class(SCAFFOLD, stats=stats)
    vio = []
    for i, c in enumerate(cases):
        vals = [CONCAT_VALUES[j] for j in c['ix']]
        ov = [(a, v) for a, v in zip(('P1', 'Q1', 'R1'), vals) if v is not None]
        # a blank operand is a never-written cell: the scaffold's constants are moved out of the way by using X/Y/Z cells
        addrs = ['S1', 'T1'] if len(vals) == 2 else ['U1', 'V1']
        if any(v is None for v in vals):
            continue_blank = True
        else:
            continue_blank = False
        if continue_blank:
            stats['x:blank_via_items_only'] += 1
            continue
        o = S.run(cls, ov, addrs + ['W1'], stats)
        judge_concat(vals, {'&': o[0], 'CONCATENATE': o[1]}, 'ov', stats, i, vio)
        judge_concat(vals[:1], {'CONCATENATE/1': o[2]}, 'ov', stats, i, vio)
        q = vals[1]
        if isinstance(q, (int, float)) and not isinstance(q, bool) and len(vals) == 3:
            p_, r_ = vals[0], vals[2]
            o2 = S.run(cls, ov, ['S2', 'T2', 'U2', 'V2', 'W2'], stats)
            judge_concat([p_, q + 1], {'&+': o2[0], 'CONCATENATE(a,b+1)': o2[4]}, 'ov', stats, i, vio)
            judge_concat([p_, q - 1, r_], {'&-&': o2[1]}, 'ov', stats, i, vio)
            judge_concat([q + 1, p_], {'+&': o2[2]}, 'ov', stats, i, vio)
            judge_concat([p_, q * 2, r_], {'&*&': o2[3]}, 'ov', stats, i, vio)
    return vio


def _lit(v):
    if isinstance(v, bool):
        return 'TRUE' if v else 'FALSE'
    if isinstance(v, str):
        return '"' + v + '"'
    if isinstance(v, int) and v >= 0:
        return str(v)
    if isinstance(v, float) and v >= 0 and float('%.15g' % v) == v:
        return format(Decimal(repr(v)), 'f')
    return None


def run_concat_items(cases, stats):
    items, meta = [], []
    for c in cases:
        vals = [CONCAT_VALUES[j] for j in c['ix']]
        f, m = {}, {}
        # constants (blank = never written; '' and unstorable floats cannot be constants)
        if all(not (isinstance(v, str) and v == '') and not (isinstance(v, float) and float('%.16g' % v) != v) for v in vals):
            refs = ['A@0', 'B@0', 'C@0'][:len(vals)]
            f['E@0'] = '=' + '&'.join(refs)
            f['F@0'] = '=CONCATENATE(' + ','.join(refs) + ')'
            m['E@0'] = ('cell', '&')
            m['F@0'] = ('cell', 'CONCATENATE')
        lits = [_lit(v) for v in vals]
        if all(lits):
            f['G@0'] = '=' + '&'.join(lits)
            f['H@0'] = '=CONCATENATE(' + ','.join(lits) + ')'
            m['G@0'] = ('lit', '&')
            m['H@0'] = ('lit', 'CONCATENATE')
        cells = {a: v for a, v in zip(('A@0', 'B@0', 'C@0'), vals) if v is not None and v != ''}
        items.append({'f': f, 'cells': cells})
        meta.append(m)
    raw = D.eval_items([it for it in items], stats=stats) if items else []
    vio = []
    for i, (c, m, r) in enumerate(zip(cases, meta, raw)):
        vals = [CONCAT_VALUES[j] for j in c['ix']]
        for src in ('cell', 'lit'):
            outs = {form: r[a] for a, (s, form) in m.items() if s == src}
            if outs:
                judge_concat(vals, outs, src, stats, i, vio)
    return vio


# ---------------------------------------------------------------------------------------------
# VALUE

def grid_first():
    from mc.props.c16 import grid
    return next(iter(grid(2)))


def value_of(x: str):
    x = x.strip()
    if x.endswith('%'):
        return float(Decimal(x[:-1]) / 100)
    return float(Decimal(x))


PADS = [('', ''), (' ', ''), ('', ' '), ('  ', ' ')]


def judge_value(x, o, src, stats, i, vio, pad='none'):
    want = value_of(x)
    stats['validated'] += 1
    stats['nontrivial'] += 1
    stats['out:' + S.out_label(o)] += 1
    if not same(want, o):
        _v(vio, i, {'func': 'VALUE', 'src': src, 'pad': pad, 'percent': x.strip().endswith('%'), 'exponent': 'e' in x,
                    'sign': '-' if x.strip().startswith('-') else ('+' if x.strip().startswith('+') else 'none'),
                    'fraction': '.' in x}, o, want)


NUMBERS_FOR_VALUE = [0.1 + 0.2, 1 / 3, 2 / 3, 1e-7, 123456789.12345678, 0.30000000000000004, 5, -2.5, 1e15 + 0.5, 2.0]


def run_value_ov(cases, stats):
    cls = S.get_class(SCAFFOLD, stats=stats)
    vio = []
    if cases and cases[0].get('x') == grid_first():
        # VALUE of a number is that number, every digit of it (once per run)
        for v in NUMBERS_FOR_VALUE:
            o = S.run(cls, [('A1', v)], ['N1', 'N2', 'N3'], stats)
            stats['validated'] += 3
            for form, oo, w in (('VALUE(n)', o[0], v), ('VALUE(n)=n', o[1], True), ('VALUE(n+0)', o[2], v)):
                if not same(w, oo):
                    _v(vio, 0, {'func': 'VALUE', 'src': 'ov', 'form': form, 'of': 'number'}, oo, w)
    for i, c in enumerate(cases):
        for j, (a, b) in enumerate(PADS):
            o, = S.run(cls, [('A1', a + c['x'] + b)], ['N1'], stats)
            judge_value(c['x'], o, 'ov', stats, i, vio, pad='none' if j == 0 else 'padded')
    return vio


def run_value_items(cases, stats):
    items = []
    for c in cases:
        x = c['x']
        items.append({'f': {'B@0': '=VALUE(A@0)', 'C@0': f'=VALUE("{x}")', 'D@0': f'=VALUE(" {x} ")', 'E@0': '=VALUE(A@0&"")'},
                      'cells': {'A@0': x}})
    raw = D.eval_items(items, stats=stats)
    vio = []
    for i, (c, r) in enumerate(zip(cases, raw)):
        judge_value(c['x'], r['B@0'], 'cell', stats, i, vio)
        judge_value(c['x'], r['C@0'], 'lit', stats, i, vio)
        judge_value(c['x'], r['D@0'], 'lit', stats, i, vio, pad='padded')
        judge_value(c['x'], r['E@0'], 'cell&', stats, i, vio)
    return vio
