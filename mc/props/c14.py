"""C14 - lookup and reference functions return the addressed element.  BE over key columns x lookup values x modes,
INDEX boxes, ADDRESS / COLUMN over every column."""
import itertools

from openpyxl.utils import get_column_letter

from mc import driver as D
from mc import sweep as S
from mc.ref import formula as R

PROP = 'C14'
RULE = ('complete products: all key columns of length 1..4 over {10,20,30} and over {a,b,c} (ascending, unsorted, duplicates) x '
        'lookup values {5,10.0,15,20,25.5,30,35} / {a,b,c,d} x VLOOKUP (table widths 1..3, every result column, range_lookup '
        '0/1/omitted/FALSE/TRUE) x MATCH (0/1/omitted) x XMATCH (match_mode omitted/0 x search_mode omitted/1/-1) x '
        'INDEX(values, MATCH(k, keys, 0)), keys and lookup value as overrides; columns of length <= 3 also as workbook constants '
        'with the lookup value as a literal; INDEX over areas 1x1,1x3,3x1,2x3,3x3 and a two-area form x r,c in -1..n+1 (c also '
        'omitted); ADDRESS(r,c) for rows {1,7,1048576} x every column 1..16384 (+ ref_type 1..4 on the boundary set); COLUMN of a '
        'reference in the boundary columns (thorough: every column 1..16384) in 5 spellings, COLUMN() in 6 columns, neighbours '
        'keeping their values; non-trivial = duplicates, unsorted columns, misses, approximate hits between/above keys, '
        'out-of-area indices, columns >= 26')
ASSUMPTIONS = ['approximate modes are judged on non-decreasing key columns only', 'XMATCH match_mode -1/1, MATCH type -1, case-differing '
               'text keys, horizontal MATCH, INDEX with 0 (whole row/column) is explored, not judged; of COLUMN over an area of several columns only the formula\'s own cell (first column number) and the integrity of every other non-blank cell are judged',
               'a negative INDEX number may be any error value; beyond the area must be #REF!; a missing key must be #N/A']

NA = R.Err('NA')
REF = R.Err('REF')
ANYERR = R.Err('ANY')
BLANK = 'blank-cell'

NUM_KEYS, NUM_LOOK = [10, 20.0, 30], [5, 10.0, 15, 20, 25.5, 30, 35]   # ints and floats are one kind of number
TXT_KEYS, TXT_LOOK = ['a', 'b', 'c'], ['a', 'b', 'c', 'd']


# ---------------------------------------------------------------------------------------------
# lookup scaffold: keys in A1:A4, partner values in B and C, lookup value in K1; formulas from row 10 on

def val(r, c):
    return r * 100 + c  # planted partner value of table row r (1-based), table column c (2..3)


VMODES = [('0', 'exact'), ('1', 'approx'), (None, 'approx'), ('FALSE', 'exact'), ('TRUE', 'approx')]
MMODES = [('0', 'exact'), ('1', 'approx'), (None, 'approx')]
XMODES = [(None, None), ('0', None), ('0', '1'), ('0', '-1')]
XBINARY = [('0', '2'), ('0', '-2')]     # binary search: judged on strictly ascending (2) / descending (-2) keys of one kind
XUNJUDGED = [('-1', None), ('1', None), ('-1', '-1'), ('1', '-1'), ('-1', '1'), ('1', '1')]


def build_lookup_formulas():
    """-> (cells, meta) ; meta[n] = list of (addr, descriptor dict)"""
    cells = {'K1': 10}
    for r in range(1, 5):
        cells[f'A{r}'] = r * 10
        cells[f'B{r}'] = val(r, 2)
        cells[f'C{r}'] = val(r, 3)
    meta = {n: [] for n in range(1, 5)}
    row = 10
    for n in range(1, 5):
        col = 1

        def put(formula, d):
            nonlocal col
            addr = f'{get_column_letter(col)}{row}'
            cells[addr] = formula
            meta[n].append((addr, d))
            col += 1

        for w in range(1, 4):
            last = 'ABC'[w - 1]
            for c in range(1, w + 1):
                for mode, kind in VMODES:
                    put(f'=VLOOKUP(K1,A1:{last}{n},{c}' + (f',{mode})' if mode else ')'),
                        {'func': 'VLOOKUP', 'mode': kind, 'mode_arg': mode or 'omitted', 'width': w, 'col': c})
        for mode, kind in MMODES:
            put(f'=MATCH(K1,A1:A{n}' + (f',{mode})' if mode else ')'), {'func': 'MATCH', 'mode': kind, 'mode_arg': mode or 'omitted'})
        for mm, sm in XMODES + XBINARY + XUNJUDGED:
            args = ''.join(',' + x for x in (mm, sm) if x is not None)
            put(f'=XMATCH(K1,A1:A{n}{args})', {'func': 'XMATCH', 'mode': 'exact' if (mm in (None, '0')) else 'unjudged',
                                               'mode_arg': mm or 'omitted', 'search': sm or 'omitted'})
        # the same table on its own sheet L (keys overridden there too; rows n+1..4 of column A stay blank):
        # whole-column areas and areas with trailing blank rows
        for mode, kind in VMODES[:3]:
            m = f',{mode})' if mode else ')'
            put(f'=VLOOKUP(K1,L!A:C,3{m}', {'func': 'VLOOKUP', 'mode': kind, 'mode_arg': mode or 'omitted', 'width': 3, 'col': 3, 'area': 'whole-columns'})
            put(f'=VLOOKUP(K1,L!A1:C4,2{m}', {'func': 'VLOOKUP', 'mode': kind, 'mode_arg': mode or 'omitted', 'width': 3, 'col': 2, 'area': 'trailing-blanks'})
            put(f'=MATCH(K1,L!A:A{m}', {'func': 'MATCH', 'mode': kind, 'mode_arg': mode or 'omitted', 'area': 'whole-column'})
            put(f'=MATCH(K1,L!A1:A4{m}', {'func': 'MATCH', 'mode': kind, 'mode_arg': mode or 'omitted', 'area': 'trailing-blanks'})
        put('=XMATCH(K1,L!A:A)', {'func': 'XMATCH', 'mode': 'exact', 'mode_arg': 'omitted', 'search': 'omitted', 'area': 'whole-column'})
        put('=XMATCH(K1,L!A:A,0,-1)', {'func': 'XMATCH', 'mode': 'exact', 'mode_arg': '0', 'search': '-1', 'area': 'whole-column'})
        put('=INDEX(L!B:B,MATCH(K1,L!A:A,0))', {'func': 'INDEX-MATCH', 'mode': 'exact', 'area': 'whole-column'})
        put(f'=INDEX(B1:B{n},MATCH(K1,A1:A{n},0))', {'func': 'INDEX-MATCH', 'mode': 'exact'})
        put(f'=INDEX(A1:C{n},MATCH(K1,A1:A{n},0),3)', {'func': 'INDEX-MATCH', 'mode': 'exact', 'col': 3})
        # the lookup guarded by IFERROR whose fallback is a lookup that fails: the fallback is only looked at when needed
        put(f'=IFERROR(INDEX(B1:B{n},MATCH(K1,A1:A{n},0)),INDEX(B1:B{n},MATCH("no such key",A1:A{n},0)))',
            {'func': 'INDEX-MATCH', 'mode': 'exact', 'guard': 'iferror-failing-fallback'})
        row += 1
    return cells, meta


LOOKUP_CELLS, LOOKUP_META = build_lookup_formulas()
LOOKUP_SCAFFOLD = [('S', LOOKUP_CELLS), ('L', {f'{c}{r}': val(r, k) for r in range(1, 5) for c, k in (('B', 2), ('C', 3))})]


def classify(keys):
    if None in keys:
        return 'with-blanks'
    if any(isinstance(k, bool) for k in keys):
        return 'with-logicals'
    if all(a < b for a, b in zip(keys, keys[1:])):
        return 'ascending'
    if all(a <= b for a, b in zip(keys, keys[1:])):
        return 'ascending_dup'
    if len(set(keys)) < len(keys):
        return 'duplicates'
    return 'unsorted'


def value_pos(keys, v):
    if v in keys:
        return 'present'
    keys = [k for k in keys if k is not None] or [v]
    if isinstance(v, bool) or any(isinstance(k, bool) for k in keys):
        return 'logical'
    if v < min(keys):
        return 'below'
    if v > max(keys):
        return 'above'
    return 'between'


def expected_lookup(d, keys, v):
    """Reference: linear search over the planted column.  Returns a value, an Err, or None (= not judged)."""
    n = len(keys)
    func, mode = d['func'], d['mode']
    if mode == 'unjudged':
        return None
    if None in keys and mode != 'exact':
        return None   # a key column with blank gaps: only exact matching is fixed (a blank is never the key)
    if (any(isinstance(k, bool) for k in keys) or isinstance(v, bool)) and mode != 'exact':
        return None   # logical values among the keys / as the lookup value: only exact matching is fixed
    if d.get('search') in ('2', '-2'):
        if any(k is None or isinstance(k, bool) for k in keys) or isinstance(v, bool) or \
                any(isinstance(k, str) != isinstance(v, str) for k in keys):
            return None
        seq = keys if d['search'] == '2' else keys[::-1]
        if not all(a < b for a, b in zip(seq, seq[1:])):
            return None          # a binary search promises nothing on keys that are not sorted its way
        return keys.index(v) + 1 if v in keys else NA
    if mode == 'exact':
        # logical values are a kind of their own: TRUE is found at TRUE only, never at 1
        hits = [i for i, k in enumerate(keys) if isinstance(k, bool) == isinstance(v, bool) and k == v]
        if not hits:
            # the statement names #N/A for the lookup functions themselves; INDEX over a failed MATCH is any error
            return ANYERR if func == 'INDEX-MATCH' else NA
        i = hits[-1] if d.get('search') == '-1' else hits[0]
    else:
        if classify(keys) not in ('ascending', 'ascending_dup'):
            return None
        hits = [i for i, k in enumerate(keys) if k <= v]
        if not hits:
            return NA
        i = hits[-1]
    if func in ('MATCH', 'XMATCH'):
        return i + 1
    if func == 'VLOOKUP':
        return keys[i] if d['col'] == 1 else val(i + 1, d['col'])
    if func == 'INDEX-MATCH':
        return val(i + 1, d.get('col', 2))
    raise AssertionError(func)


def judge_lookup(d, keys, v, o, src, stats, i, vio):
    want = expected_lookup(d, keys, v)
    stats['out:' + S.out_label(o)] += 1
    if want is None:
        stats['x:not_judged'] += 1
        return
    stats['validated'] += 1
    kc, vp = classify(keys), value_pos(keys, v)
    if kc != 'ascending' or vp != 'present':
        stats['nontrivial'] += 1
    ok, _ = R.same_value(want, o, named_errors=not (isinstance(want, R.Err) and want.kind == 'ANY'))
    if not ok:
        k, _ = o
        desc = dict(d, src=src, keys_class=kc, value_pos=vp, key_kind='text' if isinstance(v, str) else 'num', n=len(keys),
                    outcome='VALUE_MISMATCH' if k == 'VALUE' else k)
        vio.append({'i': i, 'desc': desc, 'expected': repr(want) if isinstance(want, R.Err) else want, 'observed': S.obs(o)})


def run_lookup_ov(cases, stats):
    cls = S.get_class(LOOKUP_SCAFFOLD, stats=stats)
    vio = []
    for i, c in enumerate(cases):
        keys, v = c['keys'], c['v']
        n = len(keys)
        ov = [(f'A{r + 1}', k) for r, k in enumerate(keys) if k is not None] + [('K1', v)] + \
             [(('L', f'A{r + 1}'), k) for r, k in enumerate(keys) if k is not None]
        addrs = [a for a, _ in LOOKUP_META[n]]
        outs = S.run(cls, ov, addrs, stats)
        for (a, d), o in zip(LOOKUP_META[n], outs):
            if None in keys and 'area' not in d:
                continue   # blanks inside the key column exist only on sheet L (sheet S holds constants in A1:A4)
            judge_lookup(d, keys, v, o, 'ov', stats, i, vio)
    return vio


def _lit(v):
    if isinstance(v, bool):
        return 'TRUE' if v else 'FALSE'
    return '"' + v + '"' if isinstance(v, str) else str(v)


def run_lookup_cell(cases, stats):
    """Keys as workbook constants, lookup value as a literal in the formula text; a reduced formula set per item."""
    items, metas = [], []
    for c in cases:
        keys, v = c['keys'], c['v']
        n = len(keys)
        cells = {}
        for r, k in enumerate(keys):
            cells[f'A@{r}'] = k
            cells[f'B@{r}'] = val(r + 1, 2)
            cells[f'C@{r}'] = val(r + 1, 3)
        L = _lit(v)
        rng = f'A@0:A@{n - 1}'
        tab = f'A@0:C@{n - 1}'
        forms = [
            (f'=VLOOKUP({L},{tab},3,0)', {'func': 'VLOOKUP', 'mode': 'exact', 'mode_arg': '0', 'width': 3, 'col': 3}),
            (f'=VLOOKUP({L},{tab},2)', {'func': 'VLOOKUP', 'mode': 'approx', 'mode_arg': 'omitted', 'width': 3, 'col': 2}),
            (f'=VLOOKUP({L},{tab},1,TRUE)', {'func': 'VLOOKUP', 'mode': 'approx', 'mode_arg': 'TRUE', 'width': 3, 'col': 1}),
            (f'=MATCH({L},{rng},0)', {'func': 'MATCH', 'mode': 'exact', 'mode_arg': '0'}),
            (f'=MATCH({L},{rng})', {'func': 'MATCH', 'mode': 'approx', 'mode_arg': 'omitted'}),
            (f'=XMATCH({L},{rng})', {'func': 'XMATCH', 'mode': 'exact', 'mode_arg': 'omitted', 'search': 'omitted'}),
            (f'=XMATCH({L},{rng},0,-1)', {'func': 'XMATCH', 'mode': 'exact', 'mode_arg': '0', 'search': '-1'}),
            (f'=INDEX(B@0:B@{n - 1},MATCH({L},{rng},0))', {'func': 'INDEX-MATCH', 'mode': 'exact'}),
        ]
        f, m = {}, {}
        for j, (text, d) in enumerate(forms):
            a = f'{"EFGHIJKL"[j]}@0'
            f[a] = text
            m[a] = d
        items.append({'f': f, 'cells': cells, 'h': n + 1})
        metas.append(m)
    raw = D.eval_items(items, stats=stats)
    vio = []
    for i, (c, m, r) in enumerate(zip(cases, metas, raw)):
        for a, d in m.items():
            judge_lookup(d, c['keys'], c['v'], r[a], 'cell+lit', stats, i, vio)
    return vio


# ---------------------------------------------------------------------------------------------
# INDEX

AREAS = {  # name -> (range text, rows, cols)
    '1x1': ('B2:B2', 1, 1), '1x3': ('B2:D2', 1, 3), '3x1': ('B2:B4', 3, 1), '2x3': ('B2:D3', 2, 3), '3x3': ('B2:D4', 3, 3),
}


def planted(row, col):
    return 1000 + row * 10 + col  # absolute sheet coordinates (row 2..4, col B..D = 2..4)


def build_index_scaffold():
    cells = {'H1': 1, 'I1': 1, 'J1': 1}
    for r in range(1, 6):
        for c in range(1, 6):
            cells[f'{get_column_letter(c)}{r + 0}'] = planted(r, c) if not (r == 1 and c >= 8) else None
    cells = {k: v for k, v in cells.items() if v is not None}
    cells.update({'H1': 1, 'I1': 1, 'J1': 1})
    meta = []
    row = 10
    for name, (rng, nr, nc) in AREAS.items():
        cells[f'A{row}'] = f'=INDEX({rng},H1,I1)'
        meta.append((f'A{row}', {'area': name, 'form': 'r,c'}))
        cells[f'B{row}'] = f'=INDEX({rng},H1)'
        meta.append((f'B{row}', {'area': name, 'form': 'r'}))
        row += 1
    cells[f'A{row}'] = '=INDEX(V!A1:B6,H1,I1)'
    meta.append((f'A{row}', {'area': 'below-used-range', 'form': 'r,c'}))
    row += 1
    cells[f'A{row}'] = '=INDEX((B2:C3,D4:E5),H1,I1,J1)'
    meta.append((f'A{row}', {'area': 'two', 'form': 'r,c,a'}))
    cells[f'B{row}'] = '=INDEX((B2:C3,D4:E5),H1,I1)'
    meta.append((f'B{row}', {'area': 'two', 'form': 'r,c'}))
    return cells, meta


INDEX_CELLS, INDEX_META = build_index_scaffold()
INDEX_SCAFFOLD = [('S', INDEX_CELLS), ('V', {'A1': 9001, 'B1': 9002, 'A2': 9003, 'B2': 9004})]


def expected_index(d, r, c, a):
    name, form = d['area'], d['form']
    if name == 'below-used-range':
        # V!A1:B6 on a sheet whose used range is A1:B2: rows 3..6 are blank cells of the area, not outside it
        if r < 0 or c < 0:
            return ANYERR
        if r == 0 or c == 0:
            return None
        if r > 6 or c > 2:
            return REF
        return {(1, 1): 9001, (1, 2): 9002, (2, 1): 9003, (2, 2): 9004}.get((r, c), BLANK)
    if name == 'two':
        tops = {1: (2, 2), 2: (4, 4)}
        if form == 'r,c':
            a = 1
        if a not in tops:
            return REF if a > 2 else None
        top, left, nr, nc = tops[a][0], tops[a][1], 2, 2
    else:
        rng, nr, nc = AREAS[name]
        top, left = 2, 2
    if form == 'r':
        # one index: only for single-row / single-column areas
        if nr == 1:
            r, c = 1, r
        elif nc == 1:
            c = 1
        else:
            return None
        if (c if nr == 1 else r) == 0:
            return None
    if r < 0 or c < 0:
        return ANYERR
    if r == 0 or c == 0:
        return None
    if r > nr or c > nc:
        return REF
    return planted(top + r - 1, left + c - 1)


def run_index(cases, stats):
    cls = S.get_class(INDEX_SCAFFOLD, stats=stats)
    vio = []
    for i, c in enumerate(cases):
        r, cc, a = c['r'], c['c'], c['a']
        outs = S.run(cls, [('H1', r), ('I1', cc), ('J1', a)], [x for x, _ in INDEX_META], stats)
        for (addr, d), o in zip(INDEX_META, outs):
            if a != 1 and d['form'] != 'r,c,a':
                continue
            if d['form'] == 'r' and cc != 1:
                continue
            want = expected_index(d, r, cc, a)
            stats['out:' + S.out_label(o)] += 1
            if want is None:
                stats['x:not_judged'] += 1
                continue
            stats['validated'] += 1
            if isinstance(want, R.Err):
                stats['nontrivial'] += 1
            if want == BLANK:
                ok = o[0] == 'VALUE' and D.is_blank(o[1])
            else:
                ok, _ = R.same_value(want, o, named_errors=(want.kind != 'ANY') if isinstance(want, R.Err) else False)
            if not ok:
                k, _ = o
                vio.append({'i': i, 'desc': dict(d, func='INDEX', row_class='neg' if r < 0 else ('in' if isinstance(want, int) else 'out'),
                                                 outcome='VALUE_MISMATCH' if k == 'VALUE' else k),
                            'expected': repr(want) if isinstance(want, R.Err) else want, 'observed': S.obs(o)})
    return vio


def run_index_lit(cases, stats):
    """INDEX with literal row/column numbers on workbook constants."""
    items, metas = [], []
    for c in cases:
        name = c['area']
        rng, nr, nc = AREAS[name]
        # the area lives at the same offsets (rows @0..@2, columns B..D) in every item block
        cells = {f'{get_column_letter(cc)}@{rr}': planted(rr + 2, cc) for rr in range(3) for cc in range(2, 5)}
        f = {'F@0': f'=INDEX(B@0:{get_column_letter(1 + nc)}@{nr - 1},{c["r"]},{c["c"]})'}
        items.append({'f': f, 'cells': cells, 'h': 4})
    raw = D.eval_items(items, stats=stats)
    vio = []
    for i, (c, r) in enumerate(zip(cases, raw)):
        d = {'area': c['area'], 'form': 'r,c'}
        want = expected_index(d, c['r'], c['c'], 1)
        o = r['F@0']
        if want is None:
            stats['x:not_judged'] += 1
            continue
        stats['validated'] += 1
        ok, _ = R.same_value(want, o, named_errors=(want.kind != 'ANY') if isinstance(want, R.Err) else False)
        if not ok:
            k, _ = o
            vio.append({'i': i, 'desc': dict(d, func='INDEX', src='lit', outcome='VALUE_MISMATCH' if k == 'VALUE' else k),
                        'expected': repr(want) if isinstance(want, R.Err) else want, 'observed': S.obs(o)})
    return vio


# ---------------------------------------------------------------------------------------------
# ADDRESS

def letters(n):
    """Independent bijective base-26 routine."""
    s = ''
    while n > 0:
        n -= 1
        s = chr(ord('A') + n % 26) + s
        n //= 26
    return s


ADDR_SCAFFOLD = [('S', {'A1': 1, 'B1': 1, 'C1': '=ADDRESS(A1,B1)', 'D1': '=ADDRESS(A1,B1,1)', 'E1': '=ADDRESS(A1,B1,2)',
                        'F1': '=ADDRESS(A1,B1,3)', 'G1': '=ADDRESS(A1,B1,4)'})]
BOUNDARY = sorted(set(list(range(1, 61)) + list(range(670, 735)) + list(range(17570, 17585)) + [16383, 16384, 18278]) - {17570})
BOUNDARY = [c for c in BOUNDARY if c <= 16384]


def col_class(c):
    return 'mult26' if c % 26 == 0 else ('1' if c <= 26 else ('2' if c <= 702 else '3'))


def run_address(cases, stats):
    cls = S.get_class(ADDR_SCAFFOLD, stats=stats)
    vio = []
    for i, c in enumerate(cases):
        lo, hi, row = c['cols'][0], c['cols'][1], c['row']
        for col in range(lo, hi + 1):
            assert letters(col) == get_column_letter(col)
            full = col in BOUNDARY
            addrs = ['C1', 'D1', 'E1', 'F1', 'G1'] if full else ['C1']
            outs = S.run(cls, [('A1', row), ('B1', col)], addrs, stats)
            L = letters(col)
            wants = [f'${L}${row}', f'${L}${row}', f'{L}${row}', f'${L}{row}', f'{L}{row}']
            stats['cases'] += 1
            if col > 26:
                stats['nontrivial'] += 1
            for form, o, w in zip(('2args', 'abs1', 'abs2', 'abs3', 'abs4'), outs, wants):
                stats['validated'] += 1
                stats['out:' + S.out_label(o)] += 1
                ok, _ = R.same_value(w, o)
                if not ok:
                    k, _ = o
                    vio.append({'i': i, 'desc': {'func': 'ADDRESS', 'form': form, 'col_class': col_class(col), 'src': 'ov',
                                                 'outcome': 'VALUE_MISMATCH' if k == 'VALUE' else k}, 'expected': w, 'observed': S.obs(o)})
    return vio


def run_address_lit(cases, stats):
    items = []
    for c in cases:
        items.append({'f': {'C@0': f'=ADDRESS({c["row"]},{c["col"]})', 'D@0': '=ADDRESS(A@0,B@0)', 'E@0': f'=ADDRESS(A@0,{c["col"]},4)'},
                      'cells': {'A@0': c['row'], 'B@0': c['col']}})
    raw = D.eval_items(items, stats=stats)
    vio = []
    for i, (c, r) in enumerate(zip(cases, raw)):
        L = letters(c['col'])
        for a, w, src in (('C@0', f'${L}${c["row"]}', 'lit'), ('D@0', f'${L}${c["row"]}', 'cell'), ('E@0', f'{L}{c["row"]}', 'cell+lit')):
            stats['validated'] += 1
            ok, _ = R.same_value(w, r[a])
            if not ok:
                k, _ = r[a]
                vio.append({'i': i, 'desc': {'func': 'ADDRESS', 'col_class': col_class(c['col']), 'src': src,
                                             'outcome': 'VALUE_MISMATCH' if k == 'VALUE' else k}, 'expected': w, 'observed': S.obs(r[a])})
    return vio


# ---------------------------------------------------------------------------------------------
# COLUMN

def run_column(cases, stats):
    """One workbook per chunk: row 1 holds a marker number in every referenced column, row 2.. hold the formulas."""
    vio = []
    cells = {}
    other = {'A1': 5}
    meta = {}
    for j, c in enumerate(cases):
        col = c['col']
        L = get_column_letter(col)
        r = 3 + j
        forms = {'A': f'=COLUMN({L}1)', 'B': f'=COLUMN(${L}$1)', 'C': f'=COLUMN(S!{L}7)', 'D': f'=COLUMN({L}1:{L}2)',
                 'E': f"=COLUMN('O t'!{L}1)", 'F': f'=COLUMN({L}1)+1', 'G': 77}
        for k, f in forms.items():
            cells[f'{k}{r}'] = f
        meta[r] = col
    kind, text = D.translate([('S', cells), ('O t', other)])
    stats['transitions'] += 1
    if kind == 'TEXT':
        k2, cls, _ = D.load_class(text)
        if k2 != 'CLASS':
            kind, text = k2, cls
    if kind != 'TEXT':
        return [{'i': 0, 'desc': {'func': 'COLUMN', 'outcome': kind, 'form': 'workbook'}, 'expected': 'translates', 'observed': text}]
    ex = D.new_executor(cls)
    for i, c in enumerate(cases):
        r = 3 + i
        col = c['col']
        if col > 26:
            stats['nontrivial'] += 1
        for k, w in (('A', col), ('B', col), ('C', col), ('D', col), ('E', col), ('F', col + 1), ('G', 77)):
            o = D.eval_cell(ex, 'S', k, str(r))
            stats['evaluations'] += 1
            stats['validated'] += 1
            stats['out:' + S.out_label(o)] += 1
            ok, _ = R.same_value(w, o)
            if not ok:
                kk, _ = o
                vio.append({'i': i, 'desc': {'func': 'COLUMN', 'form': {'A': 'ref', 'B': '$ref', 'C': 'sheet!ref', 'D': 'column-range',
                                                                       'E': 'quoted-sheet!ref', 'F': 'ref+1', 'G': 'neighbour'}[k],
                                             'col_class': col_class(col), 'outcome': 'VALUE_MISMATCH' if kk == 'VALUE' else kk},
                            'expected': w, 'observed': S.obs(o)})
    return vio


OWN_COLS = [1, 2, 26, 27, 52, 703]


def run_column_own(cases, stats):
    vio = []
    for i, c in enumerate(cases):
        cells = {'A1': 1}
        for col in OWN_COLS:
            L = get_column_letter(col)
            cells[f'{L}2'] = '=COLUMN()'
            cells[f'{L}3'] = '=COLUMN()+1'
            cells[f'{L}4'] = '=COLUMN()&"x"'
            cells[f'{L}5'] = '=IF(COLUMN()>0,COLUMN(),0)'
            cells[f'{L}6'] = 7
        kind, text = D.translate([('S', cells)], entry=c.get('entry'))
        stats['transitions'] += 1
        cls = None
        if kind == 'TEXT':
            k2, cls, _ = D.load_class(text)
            if k2 != 'CLASS':
                kind, text = k2, cls
        if kind != 'TEXT':
            vio.append({'i': i, 'desc': {'func': 'COLUMN', 'form': 'own', 'outcome': kind}, 'expected': 'translates', 'observed': text})
            continue
        ex = D.new_executor(cls)
        for col in OWN_COLS:
            L = get_column_letter(col)
            for row, w, form in ((2, col, 'own'), (3, col + 1, 'own+1'), (4, f'{col}x', 'own&x'), (5, col, 'own-in-if'), (6, 7, 'neighbour')):
                if c.get('entry') and not (c['entry'][1] == L and int(c['entry'][2]) == row):
                    continue
                o = D.eval_cell(ex, 'S', L, str(row))
                stats['validated'] += 1
                stats['evaluations'] += 1
                stats['nontrivial'] += 1
                ok, _ = R.same_value(w, o)
                if not ok:
                    kk, _ = o
                    vio.append({'i': i, 'desc': {'func': 'COLUMN', 'form': form, 'col_class': col_class(col),
                                                 'outcome': 'VALUE_MISMATCH' if kk == 'VALUE' else kk}, 'expected': w, 'observed': S.obs(o)})
    return vio


def run_column_area(cases, stats):
    """=COLUMN(area of several columns) placed in every column p of row 3: the formula's own cell holds the number of the
    first column of the area, and no cell with content of its own (row 1, occupied right neighbours) changes.  What the
    library writes into blank right neighbours (it spills the further column numbers there) is not judged."""
    vio = []
    for i, c in enumerate(cases):
        p, f, w, mask, plus = c['p'], c['f'], c['w'], c['mask'], c['plus']
        other = bool(c.get('other'))
        cells = {f'{get_column_letter(k)}1': 100 + k for k in range(1, 13)}
        cells.update({f'{get_column_letter(k)}2': 200 + k for k in range(1, 5)})
        area = f'{get_column_letter(f)}1:{get_column_letter(f + w - 1)}2'
        own = f'{get_column_letter(p)}3'
        if other:
            area = 'O!' + area       # the area lies on another sheet, whose row 3 is blank
        cells[own] = f'=COLUMN({area})' + ('+10' if plus else '')
        want = {a: v for a, v in cells.items() if a != own}
        want[own] = f + (10 if plus else 0)
        for k in range(2):
            if mask >> k & 1:
                a = f'{get_column_letter(p + 1 + k)}3'
                cells[a] = want[a] = 700 + k
        for entry in (None, ('S', get_column_letter(p), '3')):
            kind, text = D.translate([('S', cells), ('O', {f'{get_column_letter(k)}{r}': 900 + k for k in range(1, 8) for r in (1, 2)})], entry=entry)
            stats['transitions'] += 1
            cls = None
            if kind == 'TEXT':
                k2, cls, _ = D.load_class(text)
                if k2 != 'CLASS':
                    kind, text = k2, cls
            if kind != 'TEXT':
                vio.append({'i': i, 'desc': {'func': 'COLUMN', 'form': 'area-of-columns', 'outcome': kind}, 'expected': 'translates',
                            'observed': str(text)[:200]})
                break
            ex = D.new_executor(cls)
            bad = False
            for a, v in (want.items() if entry is None else [(own, want[own])]):
                col, row = D.split_a1(a)
                o = D.eval_cell(ex, 'S', col, row)
                stats['validated'] += 1
                stats['nontrivial'] += 1
                if not R.same_value(v, o)[0]:
                    vio.append({'i': i, 'desc': {'func': 'COLUMN', 'form': 'area-of-columns', 'cell': 'own' if a == own else
                                                 ('right-neighbour' if row == '3' else 'elsewhere'), 'entry': entry is not None,
                                                 'outcome': 'VALUE_MISMATCH' if o[0] == 'VALUE' else o[0]},
                                'expected': v, 'observed': [a, S.obs(o), cells[own]]})
                    bad = True
                    break
            if bad:
                break
    return vio


# ---------------------------------------------------------------------------------------------

def plan(tier, seed):
    th = tier == 'thorough'

    def key_cases(maxlen):
        for alpha, looks in ((NUM_KEYS, NUM_LOOK), (TXT_KEYS, TXT_LOOK), (NUM_KEYS + [None], NUM_LOOK[1:6:2]), (TXT_KEYS[:2] + [None], TXT_LOOK[:2]),
                             ([1, 0, True, False], [True, False, 1, 0])):
            for n in range(1, maxlen + 1):
                for keys in itertools.product(alpha, repeat=n):
                    for v in looks:
                        yield {'keys': list(keys), 'v': v}

    def index_cases():
        for r in range(-1, 8):
            for c in range(-1, 5):
                for a in (1, 2, 3):
                    yield {'r': r, 'c': c, 'a': a}

    def index_lit_cases():
        for name, (_, nr, nc) in AREAS.items():
            for r in range(1, nr + 2):
                for c in range(1, nc + 2):
                    yield {'area': name, 'r': r, 'c': c}

    def address_cases():
        for row in (1, 7, 1048576):
            for lo in range(1, 16385, 512):
                yield {'row': row, 'cols': [lo, min(lo + 511, 16384)]}

    def address_lit_cases():
        for row in (1, 1048576):
            for col in (BOUNDARY if th else BOUNDARY[::3] + [16384]):
                yield {'row': row, 'col': col}

    def column_cases():
        for col in (range(1, 16385) if th else BOUNDARY):
            yield {'col': col}

    return [
        {'name': 'lookup-override', 'cases': key_cases(4), 'runner': 'run_lookup_ov', 'chunk': 60},
        {'name': 'lookup-constant-literal', 'cases': key_cases(3), 'runner': 'run_lookup_cell', 'chunk': 25},
        {'name': 'index-override', 'cases': index_cases(), 'runner': 'run_index', 'chunk': 12},
        {'name': 'index-literal', 'cases': index_lit_cases(), 'runner': 'run_index_lit', 'chunk': 40},
        {'name': 'address-override', 'cases': address_cases(), 'runner': 'run_address', 'chunk': 2},
        {'name': 'address-literal-constant', 'cases': address_lit_cases(), 'runner': 'run_address_lit', 'chunk': 100},
        {'name': 'column-reference', 'cases': column_cases(), 'runner': 'run_column', 'chunk': 160},
        {'name': 'column-area', 'cases': [{'p': p_, 'f': f_, 'w': w_, 'mask': m_, 'plus': pl_} for p_ in range(1, 9) for f_ in range(1, 5)
                                          for w_ in (2, 3) for m_ in range(4) for pl_ in (0, 1)] +
                                         [{'p': p_, 'f': f_, 'w': w_, 'mask': m_, 'plus': 0, 'other': 1} for p_ in (1, 4, 8) for f_ in range(1, 5)
                                          for w_ in (2, 3) for m_ in range(4)], 'runner': 'run_column_area', 'chunk': 16},
        {'name': 'column-own', 'cases': iter([{}, {'entry': ['S', 'AA', '3']}, {'entry': ['S', 'B', '2']}]), 'runner': 'run_column_own',
         'chunk': 1},
    ]
