"""C16 - rounding and percent are decimal-exact.  BE: decimal grid x digit counts x {ROUND, ROUNDUP, ROUNDDOWN} x sources."""
import decimal
from decimal import Decimal

from mc import driver as D
from mc import sweep as S

PROP = 'C16'
RULE = ('complete product: sign x integer part {0,1,2,5,9,10,99,123,1234} x every fractional digit string of length 0..L '
        '(L=3 quick, 4 thorough) x digit counts -3..6 x {ROUND, ROUNDUP, ROUNDDOWN}, number and digit count supplied as '
        'overrides; the subset with <= 1 (2) fractional digits also as workbook constants and as literals; 15-significant-'
        'digit extras; percent of every grid number (override, constant, literal) and of the integers -2000..2000; '
        'non-trivial = cases whose three rounding modes do not all agree, ties, and already-representable values')
ASSUMPTIONS = ['the decimal a double stands for is its shortest round-trip text (repr), which is the typed decimal for <= 15 '
               'significant digits', 'percent must equal the double nearest to x/100 rounded to 15 significant digits',
               'numbers are compared as exact doubles (int 3 == float 3.0)']

INTS = ['0', '1', '2', '5', '9', '10', '99', '123', '1234']
DIGITS = list(range(-3, 7))
FUNCS = ['ROUND', 'ROUNDUP', 'ROUNDDOWN']
MODE = {'ROUND': decimal.ROUND_HALF_UP, 'ROUNDUP': decimal.ROUND_UP, 'ROUNDDOWN': decimal.ROUND_DOWN}
EXTRA15 = ['123456789.012345', '0.123456789012345', '99999.9999999995', '1.00000000000005', '999999999999.995',
           '2.675', '1.005', '0.285', '1.115', '8.325', '0.045', '5.015', '1.45', '2.5', '0.5', '1.5', '0.125', '0.375',
           '1000000.5', '4503599627370.5', '0.000005', '0.0000049', '1234.56785', '0.07', '0.08', '1.004', '1e-7']

SCAFFOLD = [('S', {'A1': 1.5, 'B1': 1, 'C1': '=ROUND(A1,B1)', 'D1': '=ROUNDUP(A1,B1)', 'E1': '=ROUNDDOWN(A1,B1)',
                   'F1': '=A1%', 'G1': '=ROUND(A1%,B1)',
                   # digit count omitted (= 0), and percents inside a chain of + and -
                   'H1': '=ROUNDUP(A1)', 'I1': '=ROUNDDOWN(A1)', 'J1': '=ROUNDUP(A1,)', 'K1': '=ROUNDDOWN(A1,)',
                   # the same calls with arguments that are expressions, bracketed, or read through a formula cell
                   'Q1': '=A1', 'R1': '=ROUND(A1+0,B1+0)', 'S1': '=ROUNDUP((A1),(B1))', 'T1': '=ROUNDDOWN(Q1,B1*1)',
                   'U1': '=ROUND(A1,B1)+0', 'V1': '=-ROUNDUP(-A1,B1)', 'W1': '=IF(TRUE,ROUNDDOWN(A1,B1),0)',
                   'L1': '=A1%+0', 'M1': '=A1%-0', 'N1': '=0+A1%', 'O1': '=A1%+A1%', 'P1': '=A1%*1',
                   'X1': '=A1%-2', 'Y1': '=A1%+2', 'Z1': '=2-A1%', 'AA1': '=A1%-A1%'})]
FADDR = {'ROUND': 'C1', 'ROUNDUP': 'D1', 'ROUNDDOWN': 'E1'}


def fracs(L):
    yield ''
    for n in range(1, L + 1):
        for i in range(10 ** n):
            yield str(i).zfill(n)


def grid(L):
    for sign in ('', '-'):
        for ip in INTS:
            for fr in fracs(L):
                yield sign + ip + ('.' + fr if fr else '')


def plan(tier, seed):
    L = 4 if tier == 'thorough' else 3
    Ls = 2 if tier == 'thorough' else 1

    def ov_cases():
        for x in grid(L):
            for n in DIGITS:
                yield {'x': x, 'n': n}
        for x in EXTRA15:
            for sg in ('', '-'):
                for n in list(range(-3, 16)):
                    yield {'x': sg + x, 'n': n}

    def sub_cases():
        for x in grid(Ls):
            for n in DIGITS:
                yield {'x': x, 'n': n}
        for x in EXTRA15:
            for sg in ('', '-'):
                for n in (0, 1, 2, 3, 6):
                    yield {'x': sg + x, 'n': n}

    def pct_cases():
        for x in grid(L):
            yield {'x': x}
        for i in range(-2000, 2001):
            yield {'x': str(i)}
        for x in EXTRA15:
            yield {'x': x}

    def pct_sub():
        for x in grid(Ls):
            yield {'x': x}
        for i in range(-2000, 2001, 7):
            yield {'x': str(i)}
        for x in EXTRA15:
            yield {'x': x}

    return [
        {'name': 'round-override', 'cases': ov_cases(), 'runner': 'run_ov', 'chunk': 4000},
        {'name': 'round-constant', 'cases': sub_cases(), 'runner': 'run_cell', 'chunk': 100},
        {'name': 'round-literal', 'cases': sub_cases(), 'runner': 'run_lit', 'chunk': 100},
        {'name': 'percent-override', 'cases': pct_cases(), 'runner': 'run_pct_ov', 'chunk': 4000},
        {'name': 'percent-constant', 'cases': pct_sub(), 'runner': 'run_pct_cell', 'chunk': 150},
        {'name': 'percent-literal', 'cases': pct_sub(), 'runner': 'run_pct_lit', 'chunk': 150},
    ]


# ---------------------------------------------------------------------------------------------
# oracle

def num(x: str):
    """The value a user supplies for the decimal text x (an int when it has no fraction)."""
    if '.' in x or 'e' in x:
        return float(x)
    return int(x)


def expected(func, x: str, n: int):
    d = Decimal(x)
    # the operand is a double: the decimal it stands for is its shortest round-trip text
    v = num(x)
    if isinstance(v, float):
        d = Decimal(repr(v))
    q = d.quantize(Decimal(1).scaleb(-n), rounding=MODE[func])
    return float(q)


def describe(func, x, n, src):
    d = Decimal(x)
    shifted = d.scaleb(n)
    frac = shifted - shifted.to_integral_value(rounding=decimal.ROUND_DOWN)
    return {'func': func, 'sign': 'neg' if d < 0 else ('zero' if d == 0 else 'pos'), 'tie': abs(frac) == Decimal('0.5'),
            'representable': frac == 0, 'digits_sign': 'neg' if n < 0 else ('zero' if n == 0 else 'pos'), 'src': src}


def judge_round(case, outs, src, stats, i, vio, funcs=None):
    x, n = case['x'], case['n']
    exps = {f: expected(f, x, n) for f in FUNCS}
    if len(set(exps.values())) > 1 or describe('ROUND', x, n, src)['representable']:
        stats['nontrivial'] += 1
    for f in (funcs or FUNCS):
        o = outs[f]
        stats['validated'] += 1
        stats['out:' + S.out_label(o)] += 1
        k, v = o
        ok = k == 'VALUE' and not isinstance(v, bool) and isinstance(v, (int, float)) and not D.is_blank(v) and v == exps[f]
        if not ok:
            desc = describe(f, x, n, src)
            desc['outcome'] = 'VALUE_MISMATCH' if k == 'VALUE' else k
            vio.append({'i': i, 'desc': desc, 'expected': exps[f], 'observed': S.obs(o)})


def pct_expected(x: str, times=1, plus=0):
    v = num(x)
    d = Decimal(repr(v)) if isinstance(v, float) else Decimal(v)
    return float(d * times / 100 + plus)


def sig15(v):
    return float('%.15g' % v)


def judge_pct(case, o, src, stats, i, vio, times=1, plus=0):
    x = case['x']
    e = pct_expected(x, times, plus)
    stats['validated'] += 1
    stats['nontrivial'] += 1
    stats['out:' + S.out_label(o)] += 1
    k, v = o
    ok = k == 'VALUE' and not isinstance(v, bool) and isinstance(v, (int, float)) and not D.is_blank(v) and v == sig15(e)
    if not ok and plus and k == 'VALUE' and isinstance(v, (int, float)) and not isinstance(v, bool) and not D.is_blank(v):
        # x% next to another term: the statement fixes x% itself (15 digits), not how the sum is rounded afterwards
        ok = abs(v - e) <= 1e-13 * max(1.0, abs(e))
    if not ok:
        d = Decimal(x)
        vio.append({'i': i, 'desc': {'func': 'PERCENT', 'sign': 'neg' if d < 0 else ('zero' if d == 0 else 'pos'), 'src': src,
                                     'outcome': 'VALUE_MISMATCH' if k == 'VALUE' else k}, 'expected': e, 'observed': S.obs(o)})


# ---------------------------------------------------------------------------------------------
# runners

def run_ov(cases, stats):
    cls = S.get_class(SCAFFOLD, stats=stats)
    vio = []
    for i, c in enumerate(cases):
        outs = S.run(cls, [('A1', num(c['x'])), ('B1', c['n'])], ['C1', 'D1', 'E1'], stats)
        judge_round(c, dict(zip(FUNCS, outs)), 'ov', stats, i, vio)
        if c['n'] in (-1, 0, 2):
            o = S.run(cls, [('A1', num(c['x'])), ('B1', c['n'])], ['R1', 'S1', 'T1', 'U1', 'V1', 'W1'], stats)
            judge_round(c, {'ROUND': o[0], 'ROUNDUP': o[1], 'ROUNDDOWN': o[2]}, 'ov-expression-arguments', stats, i, vio)
            judge_round(c, {'ROUND': o[3], 'ROUNDUP': o[4], 'ROUNDDOWN': o[5]}, 'ov-inside-expression', stats, i, vio)
        if c['n'] == 0:
            # the digit count left out means 0
            o = S.run(cls, [('A1', num(c['x']))], ['H1', 'I1', 'J1', 'K1'], stats)
            c0 = {'x': c['x'], 'n': 0}
            judge_round(c0, {'ROUNDUP': o[0], 'ROUNDDOWN': o[1]}, 'ov-omitted', stats, i, vio, funcs=('ROUNDUP', 'ROUNDDOWN'))
            judge_round(c0, {'ROUNDUP': o[2], 'ROUNDDOWN': o[3]}, 'ov-omitted-trailing-separator', stats, i, vio,
                        funcs=('ROUNDUP', 'ROUNDDOWN'))
    return vio


def _items(cases, as_literal):
    items = []
    for c in cases:
        x, n = c['x'], c['n']
        if as_literal:
            f = {col + '@0': f'={fn}({_lit(x)},{n})' for fn, col in zip(FUNCS, 'CDE')}
            items.append({'f': f})
        else:
            f = {col + '@0': f'={fn}(A@0,B@0)' for fn, col in zip(FUNCS, 'CDE')}
            items.append({'f': f, 'cells': {'A@0': num(x), 'B@0': n}})
    return items


def _lit(x: str) -> str:
    if 'e' in x:  # exponent spellings are not formula literals of the grid: write them positionally
        x = format(Decimal(x), 'f')
    return x


def run_cell(cases, stats):
    cases = [c for c in cases if _storable(num(c['x']))]
    raw = D.eval_items(_items(cases, False), stats=stats)
    vio = []
    for i, (c, r) in enumerate(zip(cases, raw)):
        judge_round(c, {fn: r[col + '@0'] for fn, col in zip(FUNCS, 'CDE')}, 'cell', stats, i, vio)
    return vio


def run_lit(cases, stats):
    raw = D.eval_items(_items(cases, True), stats=stats)
    vio = []
    for i, (c, r) in enumerate(zip(cases, raw)):
        judge_round(c, {fn: r[col + '@0'] for fn, col in zip(FUNCS, 'CDE')}, 'lit', stats, i, vio)
    return vio


def _storable(v):
    return not isinstance(v, float) or float('%.16g' % v) == v


def run_pct_ov(cases, stats):
    cls = S.get_class(SCAFFOLD, stats=stats)
    vio = []
    for i, c in enumerate(cases):
        o = S.run(cls, [('A1', num(c['x']))], ['F1', 'L1', 'M1', 'N1', 'O1', 'P1', 'X1', 'Y1', 'Z1', 'AA1'], stats)
        judge_pct(c, o[0], 'ov', stats, i, vio)
        for form, oo, (k, plus) in (('x%-2', o[6], (1, -2)), ('x%+2', o[7], (1, 2)), ('2-x%', o[8], (-1, 2)), ('x%-x%', o[9], (0, 0))):
            judge_pct(c, oo, 'ov:' + form, stats, i, vio, times=k, plus=plus)
        for form, oo, k in (('x%+0', o[1], 1), ('x%-0', o[2], 1), ('0+x%', o[3], 1), ('x%+x%', o[4], 2), ('x%*1', o[5], 1)):
            judge_pct(c, oo, 'ov:' + form, stats, i, vio, times=k)
    return vio


def run_pct_cell(cases, stats):
    cases = [c for c in cases if _storable(num(c['x']))]
    items = [{'f': {'C@0': '=A@0%'}, 'cells': {'A@0': num(c['x'])}} for c in cases]
    raw = D.eval_items(items, stats=stats)
    vio = []
    for i, (c, r) in enumerate(zip(cases, raw)):
        judge_pct(c, r['C@0'], 'cell', stats, i, vio)
    return vio


def run_pct_lit(cases, stats):
    items = [{'f': {'C@0': f'={_lit(c["x"])}%'}} for c in cases]
    raw = D.eval_items(items, stats=stats)
    vio = []
    for i, (c, r) in enumerate(zip(cases, raw)):
        judge_pct(c, r['C@0'], 'lit', stats, i, vio)
    return vio
