"""C20 - the importable runtime base class and the emitted runtime agree.  BE, differential: neither copy is trusted,
each is the reference for the other."""
import os
import ast
import datetime
import inspect
import itertools
import textwrap

from mc import driver as D
from mc import corpus

PROP = 'C20'
RULE = ('the helper sets of AbstractExcelInPython and of a generated class must be equal; for every common helper the complete '
        'product of small per-parameter alphabets - extended by a generic pool of every value kind wherever the product stays below '
        '20 000 (250 000 thorough) argument tuples - (numbers incl. ties / negatives / column numbers, texts incl. wildcards, regex '
        'metacharacters, numeric / date / operator texts, dates, blank objects of the respective class, flat and nested lists, '
        'tables, criteria predicates, callables, mode flags) is evaluated on both copies and the outcomes (value, or exception '
        'type) must be pairwise equal; hand-written subclasses of the base carrying the cell members of generated classes '
        '(corpus workbook and two others) must give the same value for every cell, also under overrides; non-trivial = pairs '
        'whose outcome is a value (not an exception) on at least one side')
ASSUMPTIONS = ['helpers are compared as black boxes on the enumerated arguments only',
               'a predicate returned by _criterion is compared by applying it to a fixed probe list',
               'blank objects of the two classes are the same value; exception classes are compared by name']

DT = datetime.datetime
NUM = [0, 1, -1, 3, 2.5, -2.5, 0.125, 2.675, -0.5, 26, 27, 703, 1e15, 5]
TXT = ['', 'a', 'Ab', 'a?', '*b', 'a~*', 'p.r', '(', '[x]', '5', '-1.5', ' 7 ', '12%', '2020-01-31', '31/01/2020', '12:30', '#N/A',
       '>5', '<>a', '=3', 'apple', 'APPLE', '1,5', 'abcabc']
DATES = [DT(2020, 1, 31), DT(2024, 2, 29), DT(2021, 12, 31, 12, 0), DT(1900, 1, 1), DT(2020, 3, 1)]


class Blank:  # placeholder replaced by the class's own blank object
    pass


class Pred:  # placeholder for a criterion predicate built by the class's own _criterion
    def __init__(self, crit):
        self.crit = crit


class Fn:  # placeholder for a zero-argument callable
    def __init__(self, kind, value=None):
        self.kind, self.value = kind, value


BLANK = Blank()
ANY = [0, 1, -1, 2.5, 5, '', 'a', 'A', '5', '#N/A', '2020-01-31', DATES[0], DATES[2], datetime.date(2020, 1, 31), BLANK, True, False, None]
FLAT = [[], [1, 2, 3], [3, 'x', True, BLANK, 2.5, DATES[0], '7', False], ['#N/A', 1], [0, 0], [BLANK], ['', None], [True, 1], [False],
        [1.5, -4], ['#DIV/0!', '#REF!'], [DATES[0], DATES[1]]]
NESTED = FLAT + [[[1, 2], [3, 4]], [[1, 'a'], [BLANK, 2]], [[[1]], [2, [3, [4]]]], [[10], [20], [30]]]
COLS = [[[10], [20], [30]], [[30], [20], [10]], [[10], [10], [20]], [['a'], ['b'], ['B']], [[BLANK], [10], ['a']], [[10]], [[20], [10], [30]]]
TABLES = [[[10, 1, 'x'], [20, 2, 'y'], [30, 3, 'z']], [['a', 1], ['b', 2], ['a', 3]], [[BLANK, 0], [10, 1]], [[10, 1]], [[20, 2], [10, 1]]]
CRITS = [5, 0, 'apple', '>5', '<5', '<>5', '=5', '<>apple', 'a*', '?pple', '*', 'p~*r', '', '2020-01-31', True, BLANK, DATES[0], '>=a', 2.5]
PROBE = [5, 0, 7, 2.5, 'apple', 'Apple', 'pear', 'p*r', '', '5', True, False, BLANK, DATES[0], None, '2020-01-31']
RANGES = [[[1], [5], [7]], [[5, 'apple'], ['Apple', BLANK]], [['apple'], ['pear'], [0]], [[BLANK], [BLANK], [5]], [[1, 5, 7]], [[True], [5], ['5']]]
SUMR = [[[1], [2], [4]], [[1, 2], [4, 8]], [[1], ['t'], [BLANK]], [[1], [2]], [[True], [2], [4]], [[DATES[0]], [2], [4]], [[1, 2, 4]]]
FNS = [Fn('value', 1), Fn('value', '#N/A'), Fn('value', '#DIV/0!'), Fn('raise'), Fn('value', BLANK), Fn('value', 0), Fn('value', 'x')]

SPEC = {
    '_address': [[1, 7, 1048576], [1, 26, 27, 52, 53, 676, 677, 702, 703, 704, 16384, 18278],
                 ('*', [(), ('1',), ('2',), ('3',), ('4',), ('5',), ('1', 'False'), ('2', 'False'), ('3', 'False'), ('4', 'False'),
                        ('4', 'True'), ('1', 'True', 'Sheet'), ('4', 'False', 'S 1')])],
    '_and': [NESTED], '_or': [NESTED], '_sum': [FLAT], '_average': [FLAT], '_min': [FLAT], '_max': [FLAT], '_count_blank': [FLAT],
    '_find_error_in_list': [FLAT], '_flatten_list': [NESTED], '_only_bool_list': [FLAT], '_only_datetime_list': [FLAT],
    '_only_numeric_list': [FLAT, [False, True]], '_when_cell_is_empty_cast_to_zero': [FLAT],
    '_averageifs': [SUMR, ('*', [(r, Pred(c)) for r in RANGES[:4] for c in CRITS[:12]] +
                           [(RANGES[0], Pred('>1'), RANGES[2], Pred('<>apple')), ()])],
    '_sumifs': [SUMR, ('*', [(r, Pred(c)) for r in RANGES[:4] for c in CRITS[:12]] +
                       [(RANGES[0], Pred('>1'), RANGES[2], Pred('<>apple')), ()])],
    '_countifs': [RANGES, [Pred(c) for c in CRITS], ('*', [(), (RANGES[0], Pred('>1')), (RANGES[2], Pred('<>apple')),
                                                           (RANGES[1], Pred('apple')), (RANGES[0], Pred('>1'), RANGES[3], Pred(5))])],
    '_sum_if': [RANGES, [Pred(c) for c in CRITS], SUMR],
    '_binary_search': [COLS, [5, 10, 15, 20, 30, 35, 'a', 'b'], [False, True]],
    '_by_operator': [['>=', '>', '<=', '<', '==', '!=', '~'], ANY, ANY],
    '_compare': [['>=', '>', '<=', '<', '==', '!=', '~'], ANY, ANY],
    '_concat_arrays_values': [FLAT[:8], FLAT[:8]],
    '_count': [[[], [[[1, 'a'], [BLANK, 2.5]]], [[[DATES[0]], [True]], [[1], ['5']]]], FLAT, FLAT[:8]],
    '_criterion': [CRITS + TXT],
    '_date': [[2020, 99, 1899, 1900, 0, -1, 9999, 10000, '2020', 'x', 2024.0], [-13, 0, 1, 2, 12, 13, 25, '2', 'x'],
              [-31, -1, 0, 1, 28, 29, 31, 32, 366, '5', 'x']],
    '_datedif': [DATES + ['x', BLANK], DATES + [5], ['Y', 'M', 'D', 'MD', 'YM', 'YD', 'Q', 'y']],
    '_day': [DATES + ['x', 5, BLANK]], '_month': [DATES + ['x', 5, BLANK]], '_year': [DATES + ['x', 5, BLANK]],
    '_edate': [DATES + ['x', BLANK, 5], [-13, -1, 0, 1, 1.9, -1.9, 12, 25, '1', BLANK]],
    '_eomonth': [DATES + ['x', BLANK, 5], [-13, -1, 0, 1, 1.9, -1.9, 12, 25, '1', BLANK]],
    '_excel_value_to_string': [ANY + NUM + [1e20, 1e-7, 123456789012345678, -0.0, 0.1 + 0.2, 1 / 3]],
    '_iferror': [FNS, FNS + [7, '#N/A', BLANK]],
    '_ifs': [[[], [True, 1], [False, 1], [False, 1, True, 2], [Fn('value', True), Fn('raise')], [Fn('value', False), Fn('raise'), True, 3],
              [Fn('value', '#N/A'), 1], [0, 1, BLANK, 2, 1, 3], [True], [False, 1, False], [Fn('raise'), 1], ['x', 5],
              [Fn('value', 0), Fn('raise'), Fn('value', 1), Fn('value', 9)]]],
    '_index': [[[[1, 2, 3], [4, 5, 6]], [[1, 2, 3]], [[1], [2], [3]], [[1]], ([[1, 2], [3, 4]], [[5, 6], [7, 8]]), [[BLANK, 'a'], [2, 3]]],
               [-1, 0, 1, 2, 3, 4, None], [None, -1, 0, 1, 2, 3, 4], [1, 2, 3]],
    '_left': [TXT, [None, -1, 0, 1, 2, 3, 100]], '_right': [TXT, [None, -1, 0, 1, 2, 3, 100]],
    '_mid': [TXT, [-1, 0, 1, 2, 3, 7, 100], [-1, 0, 1, 2, 100]],
    '_match': [[5, 10, 15, 20, 35, 'a', 'B', 'c', BLANK, 0], COLS, [0, 1, -1, 2, True]],
    '_xmatch': [[5, 10, 15, 20, 35, 'a', 'B', BLANK], COLS, [0, -1, 1, 2], [1, -1, 2, -2, 0, True]],
    '_vlookup': [[5, 10, 15, 20, 35, 'a', 'B', BLANK, 10.0], TABLES, [1, 2, 3], [False, True, 0, 1, 'x', None]],
    '_network_days': [DATES + ['x'], DATES + [5], [None, [[DATES[1]]], [[BLANK, DATES[4], 'x']], [None], [[DATES[0], DATES[0]], [DATES[4]]], []]],
    '_normalize_float_number': [NUM + [0.1 + 0.2, 1 / 3, 1e-20, 123456789.123456789, 0.07 / 100]],
    '_parse_date_formats': [TXT, ['%d/%m/%Y', '%Y-%m-%d', '%d-%m-%Y', '%m/%d/%Y']],
    '_parse_date_obj': [ANY + TXT],
    '_regexp': [TXT + ['a??', '??', 'a*?', '~?', '[a]', 'a**b', '~~', '?', '*', '???a?', 'a~?b?', '{', '}', '{2}', 'a\\b', '\\', '$^']],
    '_round': [NUM, [-2, -1, 0, 1, 2, 3, 2.0, BLANK]], '_roundup': [NUM, [-2, -1, 0, 1, 2, 3, 2.0, BLANK]],
    '_rounddown': [NUM, [-2, -1, 0, 1, 2, 3, 2.0, BLANK]],
    '_round_decimal': [NUM + [True, BLANK, 'x'], [-1, 0, 2, 30], ['ROUND_HALF_UP', 'ROUND_UP', 'ROUND_DOWN', 'ROUND_HALF_EVEN']],
    '_search': [TXT, TXT, [None, 0, 1, 2, 3, 7, -1]],
    '_today': [],
    '_value': [TXT + ['1e3', '+2', '007', '1 234,56', '12:30:15', '01-02-2020', '2/13/2020', '%', '1.2.3', '--1', '0x10', '1_000', 'nan', 'inf', ' 12% ', ' 12:30 ', '1,5 ', ' 01/02/2020 ', '\t7\n']],
    '_cell_preprocessor': [['_0_0_0', '_9_9_9', 'nope']], 'exec_function_in': [['_0_0_0', '_9_9_9', 'nope']],
    # workbook-specific accessors: filled by the generated __init__, compared in run_subclass
    'get_titles': 'skip', 'get_sheets_size': 'skip',
    'set_arguments': [[[], [{'uid': '_0_0_0', 'value': 5}], [{'uid': 'a', 'value': 1}, {'uid': 'a', 'value': 2}]]],
}
NOT_HELPERS = {'EmptyCell', 'ExcelInPythonException', '_abc_impl'}


def materialise(v, inst):
    if isinstance(v, Blank):
        return inst.EmptyCell()
    if isinstance(v, Pred):
        return inst._criterion(materialise(v.crit, inst))
    if isinstance(v, Fn):
        if v.kind == 'raise':
            return lambda: 1 / 0
        val = materialise(v.value, inst)
        return lambda: val
    if isinstance(v, list):
        return [materialise(x, inst) for x in v]
    if isinstance(v, tuple):
        return tuple(materialise(x, inst) for x in v)
    if isinstance(v, dict):
        return {k: materialise(x, inst) for k, x in v.items()}
    return v


def norm(v, inst):
    """Outcome values made comparable across the two classes."""
    if D.is_blank(v) and v is not None:
        return ('$blank',)
    if callable(v):
        out = []
        for p in materialise(PROBE, inst):
            try:
                out.append(bool(v(p)))
            except Exception as e:  # noqa
                out.append('EXC:' + type(e).__name__)
        return ('$predicate', tuple(out))
    if isinstance(v, float) and v != v:
        return ('$nan',)
    if isinstance(v, (list, tuple)):
        return (type(v).__name__, tuple(norm(x, inst) for x in v))
    if isinstance(v, dict):
        return ('dict', tuple(sorted((str(k), norm(x, inst)) for k, x in v.items())))
    if isinstance(v, (bool, int, float, str, datetime.datetime, datetime.date)) or v is None:
        return (type(v).__name__, v)
    return ('$repr', type(v).__name__, repr(v))


def call(inst, name, args):
    f = getattr(inst, name)
    try:
        with D.time_limit(5):
            return ('VALUE', norm(f(*args), inst))
    except D.CaseTimeout:
        return ('TIMEOUT',)
    except RecursionError:
        return ('EXC', 'RecursionError')
    except Exception as e:  # noqa
        return ('EXC', type(e).__name__)


_CLS = {}


def classes():
    if not _CLS:
        from excel2pycl.src.utilities.abstract_excel_in_python_class import AbstractExcelInPython
        kind, text = D.translate([('S', {'A1': 1})])
        assert kind == 'TEXT', (kind, text)
        k2, gen, ns = D.load_class(text)
        assert k2 == 'CLASS'

        class Hand(AbstractExcelInPython):
            def _0_0_0(self):
                return 1
        _CLS['gen'], _CLS['base'], _CLS['abstract'] = gen, Hand, AbstractExcelInPython
    return _CLS['gen'], _CLS['base'], _CLS['abstract']


def helper_names(cls):
    return {n for n, v in vars(cls).items() if not n.startswith('__') and n not in NOT_HELPERS and not n[1:2].isdigit()
            and (callable(v) or isinstance(v, (staticmethod, classmethod)))}


_POOL = []
for _v in ANY + NUM + TXT[:14] + DATES[:3] + FLAT[:5] + [COLS[0], TABLES[0]]:
    if repr(_v) not in [repr(_x) for _x in _POOL]:
        _POOL.append(_v)


def alphabet(spec_entry):
    return spec_entry[1] if isinstance(spec_entry, tuple) else spec_entry


def plan(tier, seed):
    gen, base, abstract = classes()  # in the main thread (the case generator is consumed by a feeder thread)
    names = sorted(helper_names(gen) | helper_names(abstract))

    th = tier == 'thorough'
    pool = _POOL

    def helper_cases():
        for n in names:
            if isinstance(SPEC.get(n), list) and SPEC[n]:
                # where the product stays below the tier's cap, every parameter additionally ranges over a generic pool of all value kinds (type confusion paths);
                # the pool indices follow the helper's own alphabet
                sizes = [len(alphabet(s)) + (0 if isinstance(s, tuple) else len(pool)) for s in SPEC[n]]
                total = 1
                for k in sizes:
                    total *= k
                if total <= (250000 if th else 20000):
                    for ix in itertools.product(*[range(k) for k in sizes]):
                        yield {'helper': n, 'ix': list(ix), 'pool': True}
                    continue
            spec = SPEC.get(n)
            if spec == 'skip':
                continue
            if spec is None:
                yield {'helper': n, 'ix': None}
                continue
            sizes = [len(alphabet(s)) for s in spec]
            for ix in itertools.product(*[range(k) for k in sizes]):
                yield {'helper': n, 'ix': list(ix)}

    return [
        {'name': 'helper-sets', 'cases': iter([{}]), 'runner': 'run_sets', 'chunk': 1},
        {'name': 'helper-pairs', 'cases': helper_cases(), 'runner': 'run_pairs', 'chunk': 3000},
        # the written translation may carry any file name, also that of a module the runtime itself imports
        {'name': 'written-file-names', 'cases': iter([{'stem': n} for n in ('calendar', 'datetime', 'decimal', 're', 'math', 'dateutil',
                                                                              'typing', 'excel2pycl', 'translation', 'calendar')]),
         'runner': 'run_file_names', 'chunk': 2},
        {'name': 'hand-written-subclass', 'cases': iter([{'wb': 'corpus'}, {'wb': 'ops'}, {'wb': 'criteria'}, {'wb': 'optional'}]), 'runner': 'run_subclass',
         'chunk': 1},
    ]


def run_sets(cases, stats):
    gen, base, abstract = classes()
    g, a = helper_names(gen), helper_names(abstract)
    stats['validated'] += 1
    stats['x:helpers_common'] = len(g & a)
    vio = []
    for n in sorted(g ^ a):
        vio.append({'i': 0, 'desc': {'helper': n, 'outcome': 'ONLY_IN_' + ('GENERATED' if n in g else 'BASE')}, 'expected': 'in both',
                    'observed': n})
    for n in sorted(g & a):
        if n not in SPEC:
            vio.append({'i': 0, 'desc': {'helper': n, 'outcome': 'NO_ARGUMENT_TABLE'}, 'expected': 'mc/props/c20.py SPEC covers every helper',
                        'observed': n})
    # signatures
    for n in sorted(g & a):
        try:
            sg, sa = inspect.signature(getattr(gen, n)), inspect.signature(getattr(abstract, n))
        except (TypeError, ValueError):
            continue
        pg = [(p.name, p.kind, repr(p.default)) for p in sg.parameters.values()]
        pa = [(p.name, p.kind, repr(p.default)) for p in sa.parameters.values()]
        stats['validated'] += 1
        if pg != pa:
            vio.append({'i': 0, 'desc': {'helper': n, 'outcome': 'SIGNATURE_DIFFERS'}, 'expected': str(pa), 'observed': str(pg)})
    # informational: how many helpers are textually (AST) identical
    try:
        same = 0
        for n in sorted(g & a):
            if _ast_of(gen, n) == _ast_of(abstract, n):
                same += 1
        stats['x:helpers_ast_identical'] = same
    except Exception:  # noqa
        pass
    return vio


_SRC = {}


def _ast_of(cls, name):
    if cls not in _SRC:
        if cls.__name__ == 'ExcelInPython':
            kind, text = D.translate([('S', {'A1': 1})])
            tree = ast.parse(text)
        else:
            tree = ast.parse(textwrap.dedent(inspect.getsource(cls)))
        c = [n for n in ast.walk(tree) if isinstance(n, ast.ClassDef) and n.name in ('ExcelInPython', 'AbstractExcelInPython')][0]
        _SRC[cls] = {f.name: f for f in c.body if isinstance(f, ast.FunctionDef)}
    f = _SRC[cls].get(name)
    if f is None:
        return None
    body = [b for b in f.body if not (isinstance(b, ast.Expr) and isinstance(getattr(b, 'value', None), ast.Constant)
                                      and isinstance(b.value.value, str))]
    return ast.dump(ast.Module(body=body, type_ignores=[]), annotate_fields=False)


def run_pairs(cases, stats):
    gen, base, abstract = classes()
    vio = []
    for i, c in enumerate(cases):
        n = c['helper']
        if c['ix'] is None or n not in SPEC:
            continue
        if not (hasattr(gen, n) and hasattr(base, n)):
            continue
        spec = SPEC[n]
        raw = []
        for s, j in zip(spec, c['ix']):
            al = alphabet(s)
            v = al[j] if j < len(al) else _POOL[j - len(al)]
            raw.append(('*', v) if isinstance(s, tuple) else ('1', v))
        outs = []
        for cls in (gen, base):
            inst = cls()
            args = []
            for kind, v in raw:
                m = materialise(v, inst)
                if kind == '*':
                    args.extend(m)
                else:
                    args.append(m)
            outs.append(call(inst, n, args))
        stats['transitions'] += 2
        stats['validated'] += 1
        if outs[0][0] == 'VALUE' or outs[1][0] == 'VALUE':
            stats['nontrivial'] += 1
        stats['out:' + (outs[0][0] if outs[0][0] != 'EXC' else 'EXC:' + outs[0][1])] += 1
        if n == '_today' and outs[0] != outs[1]:
            outs = [call(cls(), n, []) for cls in (gen, base)]
        if outs[0] != outs[1]:
            vio.append({'i': i, 'desc': {'helper': n, 'outcome': 'COPIES_DISAGREE'}, 'expected': 'base: ' + repr(outs[1])[:300],
                        'observed': {'generated': repr(outs[0])[:300], 'args': repr([v for _, v in raw])[:300]}})
    return vio


# ---------------------------------------------------------------------------------------------
# a hand-written subclass of the base with the cell members of a generated class

WORKBOOKS = {
    'corpus': [corpus.sheet('D')],
    'ops': [('S', {'A1': 2, 'B1': 'x', 'C1': '=A1*3&B1', 'D1': '=IF(A1>1,ROUND(A1/3,2),"n")', 'E1': '=-A1%+F1', 'A2': '=SUM(A1:F1)',
                   'B2': '=LEFT(B1&"yz",2)&MID("abc",2,5)', 'C2': '=IFERROR(1/F1,"e")', 'D2': '=IFS(A1>5,1,A1>1,2)', 'E2': '=A1=F1'}),
            ('T', {'A1': '=S!A1+1', 'B1': DT(2020, 1, 31), 'C1': '=EDATE(B1,1)', 'D1': '=DATEDIF(B1,C1,"D")', 'E1': '=COLUMN()'})],
    # every optional argument left out (and left empty): what the translator supplies for it must exist in both runtimes
    'optional': [('S', {'A1': -7.25, 'A2': 'apple', 'A3': 3, 'B1': 10, 'B2': 20, 'B3': 30, 'C1': DT(2024, 2, 5), 'C2': DT(2024, 2, 16),
                        'E1': '=ROUNDDOWN(A1)', 'E2': '=ROUNDUP(A1)', 'E3': '=ROUNDDOWN(A1,)', 'E4': '=ROUNDUP(A1,)', 'E5': '=LEFT(A2)',
                        'E6': '=RIGHT(A2)', 'E7': '=MATCH(25,B1:B3)', 'E8': '=XMATCH(20,B1:B3)', 'E9': '=VLOOKUP(25,B1:B3,1)',
                        'E10': '=INDEX(B1:B3,2)', 'E11': '=IF(A3>5,1)', 'E12': '=SEARCH("p",A2)', 'E13': '=NETWORKDAYS(C1,C2)',
                        'E14': '=ADDRESS(2,3)', 'E15': '=YEAR(TODAY())>2000', 'E16': '=COLUMN()', 'E17': '=SUMIF(B1:B3,">15")',
                        'E18': '=IFERROR(ROUNDDOWN(A1*2),-1)', 'E19': '=IFERROR(YEAR(TODAY()),0)>0', 'E20': '=CONCATENATE(A3)',
                        'E21': '=DATEDIF(C1,C2,"D")', 'E22': '=COUNT(A1:B3)', 'E23': '=IFS(A3>5,1,TRUE,2)'})],
    'criteria': [('S', {'A1': 1, 'A2': 5, 'A3': 'apple', 'A4': 'Apple', 'B1': 1, 'B2': 2, 'B3': 4, 'B4': 8, 'D1': 5,
                        'E1': '=SUMIF(A1:A4,">1",B1:B4)', 'E2': '=SUMIFS(B1:B4,A1:A4,"a*")', 'E3': '=COUNTIFS(A1:A4,"<>"&D1)',
                        'E4': '=AVERAGEIFS(B1:B4,A1:A4,"apple")', 'E5': '=COUNTIFS(A1:A5,D1)', 'E6': '=SUMIF(A1:A4,"?pple")',
                        'F1': '=VLOOKUP(5,A1:B4,2,0)', 'F2': '=MATCH("apple",A1:A4,0)', 'F3': '=INDEX(A1:B4,2,2)', 'F4': '=XMATCH(5,A1:A4)',
                        'F5': '=SEARCH("P",A3)', 'F6': '=NETWORKDAYS(DATE(2024,2,5),DATE(2024,2,16))'})],
}


FILE_WB = [('S', {'A1': datetime.datetime(2024, 2, 10), 'A2': datetime.datetime(2025, 7, 31), 'B1': '=EOMONTH(A1,0)', 'B2': '=DATEDIF(A1,A2,"MD")',
                  'B3': '=DATEDIF(A1,A2,"YD")', 'B4': '=ROUND(2.675,2)', 'B5': '=SEARCH("b?","aBcd")', 'B6': '=EDATE(A1,13)',
                  'B7': '=NETWORKDAYS(A1,A2)', 'B8': '=SUMIF(C1:C3,">1")', 'C1': 1, 'C2': 2, 'C3': 3, 'B9': '=YEAR(A2)&"-"&MONTH(A2)&"-"&DAY(A2)',
                  'B10': '=ROUNDUP(-7.25,1)', 'B11': '=DATE(2024,14,-3)'})]


def run_file_names(cases, stats):
    import tempfile
    from excel2pycl import Executor
    vio = []
    for i, c in enumerate(cases):
        p = D.Parser().disable_safety_check().set_excel_file_path(D.build_xlsx(FILE_WB))
        text = p.get_translation()
        k2, gen, _ = D.load_class(text)
        assert k2 == 'CLASS', (k2, gen)
        d = tempfile.mkdtemp(prefix='c20-')
        path = os.path.join(d, c['stem'] + '.py')
        p.write_translation(path)
        stats['transitions'] += 1
        try:
            ex_file = Executor().set_executed_class(class_file=path)
            loaded = 'OK'
        except Exception as e:  # noqa
            ex_file, loaded = None, 'LOAD:' + type(e).__name__ + ': ' + str(e)[:120]
        ex_obj = D.new_executor(gen)
        for addr in sorted(FILE_WB[0][1]):
            col, row = D.split_a1(addr)
            b = D.eval_cell(ex_obj, 'S', col, row)
            a = D.eval_cell(ex_file, 'S', col, row) if ex_file is not None else (loaded,)
            stats['validated'] += 1
            stats['nontrivial'] += 1
            na = (a[0], repr(a[1])) if a[0] == 'VALUE' else (a[0],)
            nb = (b[0], repr(b[1])) if b[0] == 'VALUE' else (b[0],)
            if na != nb:
                vio.append({'i': i, 'desc': {'helper': 'cell-members', 'workbook': 'file:' + c['stem'] + '.py', 'outcome': 'COPIES_DISAGREE'},
                            'expected': 'class object: ' + repr(nb)[:200],
                            'observed': {'loaded from file': repr(na)[:200], 'cell': addr, 'formula': str(FILE_WB[0][1][addr])[:80]}})
                break
    return vio


def run_subclass(cases, stats):
    from excel2pycl.src.utilities.abstract_excel_in_python_class import AbstractExcelInPython
    vio = []
    for i, c in enumerate(cases):
        kind, text = D.translate(WORKBOOKS[c['wb']])
        assert kind == 'TEXT', (kind, text)
        k2, gen, ns = D.load_class(text)
        assert k2 == 'CLASS', (k2, gen)
        members = {n: v for n, v in vars(gen).items() if n[0] == '_' and n[1:2].isdigit()}
        # the cell members are plain functions of `self`; they are re-bound into a subclass of the importable base,
        # with the globals of the base's own module (so `re`, `datetime` ... resolve as for hand-written code)
        import types
        import excel2pycl.src.utilities.abstract_excel_in_python_class as base_mod
        # ... hand-written code sees its own module, not the generated one: builtins and the datetime module (date constants
        # are spelled datetime.datetime(...)) - whatever else a cell needs must come from the helpers of the base class
        import builtins
        user_module = {'__builtins__': builtins, 'datetime': datetime, '__name__': 'hand_written'}
        body = {n: types.FunctionType(f.__code__, user_module, n, f.__defaults__, f.__closure__) for n, f in members.items()}
        g0 = gen()

        def init(self, arguments=None, _t=g0.get_titles(), _s=g0.get_sheets_size()):
            AbstractExcelInPython.__init__(self, arguments)
            self._titles = dict(_t)
            self._sheets_size = [dict(x) for x in _s]
        body['__init__'] = init
        hand = type('Hand', (AbstractExcelInPython,), body)
        stats['transitions'] += 1
        for ov in ([], [('S' if c['wb'] != 'corpus' else 'D', 'A', '1', 7)], [('S' if c['wb'] != 'corpus' else 'D', 'A', '2', 'apple')]):
            exs = []
            for cls in (gen, hand):
                ex = D.new_executor(cls)
                if ov:
                    ex.set_cells([D.Cell(t, col, row, value=v) for t, col, row, v in ov])
                exs.append(ex)
            for title, cells in WORKBOOKS[c['wb']]:
                for addr in cells:
                    col, row = D.split_a1(addr)
                    a = D.eval_cell(exs[0], title, col, row)
                    b = D.eval_cell(exs[1], title, col, row)
                    stats['evaluations'] += 2
                    stats['validated'] += 1
                    stats['nontrivial'] += 1
                    na = (a[0], norm(a[1], g0)) if a[0] == 'VALUE' else (a[0],)
                    nb = (b[0], norm(b[1], g0)) if b[0] == 'VALUE' else (b[0],)
                    if na != nb:
                        vio.append({'i': i, 'desc': {'helper': 'cell-members', 'workbook': c['wb'], 'outcome': 'COPIES_DISAGREE'},
                                    'expected': 'hand-written subclass: ' + repr(nb)[:200],
                                    'observed': {'generated': repr(na)[:200], 'cell': f'{title}!{addr}', 'formula': str(cells[addr])[:100],
                                                 'overrides': ov}})
    return vio
