"""C18 - the workbook is read at true coordinates, with true types and sizes.  BE over sparse layouts x value types."""
import datetime
import io
import math

from openpyxl import load_workbook
from openpyxl.utils import get_column_letter
from openpyxl.worksheet.formula import ArrayFormula

from mc import driver as D

PROP = 'C18'
RULE = ('complete enumeration: all 512 occupancy patterns of a 3x3 window, placed at offsets (0,0) and (1,2) (all patterns) '
        'and (26,9) / (700,40) (covering subsets), in single-sheet and multi-sheet configurations (empty sheet before / '
        'between / after, a narrower or shorter sheet after a wider one, three sheets), the value-type list rotated through '
        'the occupied positions; every coordinate of the used range is read through the real Parser and Executor and compared '
        'with the planted map; titles and sizes compared.  non-trivial = layout with a gap (empty leading row/column, hole, or '
        'empty sheet) or more than one sheet')
ASSUMPTIONS = ['normalisation by what the xlsx format itself loses: integral floats are stored as integers, a date becomes its '
               'midnight date-time, floats keep 16 significant digits (openpyxl writer)',
               'openpyxl\'s full (non read-only) reader is used to cross-check the planted map']

DT = datetime.datetime
VALUES = [7, 2.5, -3, 123456789012, True, 'text', DT(2021, 3, 4, 5, 6, 7), datetime.date(2020, 2, 29), False, '#N/A', '=1+2',
          1 / 3, math.pi, -2 / 3, 'it\'s "q"', datetime.time(1, 2, 3), 0, ' lead', '12', 1e-7, 1234567.125,
          ('$array', '=2*3'), ' =1+2', '\t=A1', "'=1+2", ' ',
          # array formulas whose stored text ends with a blank / a line break (typed after the formula)
          ('$array', '=2*3 '), ('$array', '=2*\n3\n')]
TITLES = ['S1', '2024', 'Лист3', '1']      # two titles of digits that are not their positions


def norm(v):
    """what the stored cell must evaluate to"""
    if isinstance(v, tuple) and v[0] == '$array':
        return 6
    if v == '=1+2':
        return 3
    if type(v) is datetime.date:
        return DT(v.year, v.month, v.day)
    if isinstance(v, float) and v.is_integer():
        return int(v)
    return v


def pattern_cells(pat, off, rot):
    """pat: 9-bit occupancy; off: (col0, row0) 0-based; returns {(col,row) 1-based: value}"""
    out = {}
    k = 0
    for i in range(9):
        if pat >> i & 1:
            r, c = divmod(i, 3)
            out[(off[0] + c + 1, off[1] + r + 1)] = VALUES[(rot + k) % len(VALUES)]
            k += 1
    return out


def plan(tier, seed):
    thorough = tier == 'thorough'

    def single():
        for pat in range(512):
            for off in ((0, 0), (1, 2)):
                yield {'sheets': [[pat, list(off), pat % len(VALUES)]]}
        for pat in range(512):
            if thorough or pat % 8 == 5 or pat in (1, 256, 511):
                yield {'sheets': [[pat, [26, 9], (pat * 7) % len(VALUES)]]}
        for pat in ([1, 16, 256, 273, 511, 84] if not thorough else range(0, 512, 8)):
            if pat:
                yield {'sheets': [[pat, [700, 40], pat % len(VALUES)]]}

    def multi():
        pats = range(512) if thorough else [p for p in range(512) if p % 8 in (3, 6)] + [1, 256, 16, 511]
        for pat in pats:
            q = (pat * 37 + 11) % 512
            yield {'sheets': [None, [pat, [0, 0], 1]]}                          # empty sheet first
            yield {'sheets': [[pat, [1, 2], 2], None]}                          # empty sheet last
            yield {'sheets': [[pat, [1, 2], 3], None, [q, [0, 0], 4]]}          # empty between, narrower after wider
            yield {'sheets': [[q, [0, 0], 5], [pat, [2, 1], 6]]}                # wider after narrower
            yield {'sheets': [[pat, [3, 0], 7], [q, [0, 3], 8], [pat ^ 511, [0, 0], 9]]}
            if pat % 16 in (3, 6) or pat in (1, 511):
                # a chart sheet behind the first / the second worksheet
                yield {'sheets': [[pat, [0, 0], 1], [q, [1, 1], 2], [pat ^ 511, [0, 0], 3]], 'chart': 0}
                yield {'sheets': [[pat, [0, 0], 4], [q, [1, 1], 5], [pat ^ 511, [0, 0], 6]], 'chart': 1}
        yield {'sheets': [None]}
        yield {'sheets': [None, None]}
    return [{'name': 'single-sheet-layouts', 'cases': single(), 'runner': 'run_cases', 'chunk': 24},
            {'name': 'multi-sheet-layouts', 'cases': multi(), 'runner': 'run_cases', 'chunk': 24}]


def build(case):
    from openpyxl import Workbook
    from openpyxl.utils import get_column_letter
    wb = Workbook()
    wb.remove(wb.active)
    planted = []
    for i, sh in enumerate(case['sheets']):
        ws = wb.create_sheet(TITLES[i])
        cells = {}
        if sh is not None:
            pat, off, rot = sh
            cells = pattern_cells(pat, off, rot)
            for (c, r), v in cells.items():
                addr = f'{get_column_letter(c)}{r}'
                if isinstance(v, tuple):
                    ws[addr] = ArrayFormula(f'{addr}:{addr}', v[1])
                else:
                    ws[addr] = v
        planted.append(cells)
        if case.get('chart') == i:
            # a chart sheet behind worksheet i: a tab that is no worksheet, the titles and positions of the others stay
            from openpyxl.chart import BarChart, Reference
            cs = wb.create_chartsheet('Chart')
            chart = BarChart()
            chart.add_data(Reference(wb.worksheets[0], min_col=1, min_row=1, max_row=2))
            cs.add_chart(chart)
    bio = io.BytesIO()
    wb.save(bio)
    return bio, planted


def same(exp, got):
    if exp is None:
        return D.is_blank(got) and got is not None and int(got) == 0 or got is None and False
    if D.is_blank(got):
        return False
    if type(exp) is not type(got):
        return False
    return exp == got


def run_cases(cases, stats):
    vio = []
    for i, c in enumerate(cases):
        bio, planted = build(c)
        gaps = len(c['sheets']) > 1 or any(sh is None or sh[1] != [0, 0] or sh[0] != 511 for sh in c['sheets'])
        if gaps:
            stats['nontrivial'] += 1
        # cross-check the planted map with openpyxl's full reader (harness self-check)
        bio.seek(0)
        bad = None
        kind, text = D.translate(bio)
        stats['transitions'] += 1
        if kind != 'TEXT':
            bad = ('translate', kind, text)
        else:
            k2, cls, _ = D.load_class(text)
            if k2 != 'CLASS':
                bad = ('load', k2, cls)
        if not bad:
            ex = D.new_executor(cls)
            inst = ex.get_executed_class()
            exp_titles = {TITLES[j]: j for j in range(len(c['sheets']))}
            exp_sizes = [{'last_column': max((k[0] for k in p), default=0), 'last_row': max((k[1] for k in p), default=0)}
                         for p in planted]
            stats['validated'] += 1
            if inst.get_titles() != exp_titles or list(inst.get_titles()) != list(exp_titles):
                bad = ('titles', exp_titles, inst.get_titles())
            elif inst.get_sheets_size() != exp_sizes:
                bad = ('sizes', exp_sizes, inst.get_sheets_size())
            else:
                for j, p in enumerate(planted):
                    cols, rows = exp_sizes[j]['last_column'], exp_sizes[j]['last_row']
                    coords = {(cc, rr) for cc in range(1, cols + 2) for rr in range(1, rows + 2)} if cols * rows <= 2000 else \
                        set(p) | {(k[0] + dc, k[1] + dr) for k in p for dc in (-1, 0, 1) for dr in (-1, 0, 1)
                                  if k[0] + dc >= 1 and k[1] + dr >= 1} | {(1, 1), (cols, rows), (1, rows), (cols, 1)}
                    for (cc, rr) in sorted(coords):
                        exp = norm(p[(cc, rr)]) if (cc, rr) in p else None
                        out = D.eval_cell(ex, j, cc - 1, rr - 1)
                        stats['evaluations'] += 1
                        if out[0] != 'VALUE' or not same(exp, out[1]):
                            vt = type(p[(cc, rr)]).__name__ if (cc, rr) in p else 'blank'
                            bad = ('value', {'sheet': j, 'col': cc, 'row': rr, 'type': vt, 'expected': D.enc(exp)},
                                   [out[0], D.enc(out[1]) if out[0] == 'VALUE' else out[1]])
                            break
                        if (cc, rr) in p:
                            # the same cell addressed by sheet title, column letters and row text
                            out2 = D.eval_cell(ex, TITLES[j], get_column_letter(cc), str(rr))
                            stats['evaluations'] += 1
                            if out2[0] != 'VALUE' or not same(exp, out2[1]):
                                bad = ('value', {'sheet': TITLES[j], 'col': get_column_letter(cc), 'row': rr, 'type': type(p[(cc, rr)]).__name__,
                                                 'expected': D.enc(exp), 'addressing': 'title+letters'},
                                       [out2[0], D.enc(out2[1]) if out2[0] == 'VALUE' else out2[1]])
                                break
                    if bad:
                        break
        stats['out:' + (bad[0] if bad else 'ok')] += 1
        if bad:
            desc = {'clause': bad[0], 'n_sheets': len(c['sheets']), 'empty_sheets': sum(1 for s in c['sheets'] if s is None),
                    'offsets': sorted({tuple(s[1]) for s in c['sheets'] if s}), 'outcome': 'MISREAD:' + bad[0]}
            if bad[0] == 'value':
                desc['type'] = bad[1]['type']
            vio.append({'i': i, 'desc': desc, 'expected': D.enc(bad[1]), 'observed': D.enc(bad[2])})
    return vio
