"""C12 - conditional aggregates select exactly the positions meeting every criterion.
BE over criteria-range vectors x criterion forms x functions x alignment variants."""
import itertools
import re

from mc import driver as D
from mc import sweep as S
from mc.ref import formula as R

PROP = 'C12'
RULE = ('complete product: all criteria-range vectors of length 3 (4 thorough) over {1, 5, 7, 0, "apple", "Apple", "pear", blank} '
        '(thorough adds 5.5 and "p*r") planted as overrides x 26 criterion forms (plain number / text, the six operators with a '
        'number, = and <> with a text, operator & cell, criterion read from a cell, wildcards ? * ~) x {SUMIF without and with '
        'sum range, SUMIFS, COUNTIFS, AVERAGEIFS with one pair, and each of the last three with a second and a third pair on '
        'fixed ranges}; target cells are powers of two so a sum names the selected subset; SUMIF with shorter / longer / offset sum '
        'ranges; SUMIFS / COUNTIFS / AVERAGEIFS with ranges of different sizes (must be an error, never a number); mixed-content '
        'target column for SUMIF/SUMIFS; vectors of length <= 2 as workbook constants; non-trivial = every judged case (the '
        'expected subset depends on the vector)')
ASSUMPTIONS = ['a numeric text in the range against a number criterion, boolean cells, the empty criterion and ordering operators '
               'with a text operand are not enumerated / not judged (statement silent)',
               'ordering operators select numeric cells only; <> selects everything that = does not (text, blank included)',
               'AVERAGEIFS is judged only when every selected target is a number (or nothing is selected: any error)',
               'a size mismatch must be an error value or an evaluation failure (never a number)']

KINDS_Q = [1, 5, 7, 0, 'apple', 'Apple', 'pear', None]
KINDS_T = KINDS_Q + [5.5, 'p*r']
TARGET = [1, 2, 4, 8]
TARGET2 = [16, 't', None, 128]
TARGET_E = [32, 64, 256, 512]   # E3:E6
BLOCK_FIXED = 5      # U!B2, the fourth cell of the 2x2 criteria block (U!A1, B1, A2 follow the vector)
TARGET_T = [1024, 2048, 4096, 8192, 16384]   # T!A1:A5
SECOND = [3, 9, 3, 9]          # fixed second criteria range, criterion ">5" selects positions 1 and 3 (0-based)

# (name, formula text of the criterion, value the criterion evaluates to)
FORMS = [
    ('num', '5', 5), ('zero', '0', 0), ('num7', '7', 7), ('num_one', '1', 1), ('bool_true', 'TRUE', True), ('bool_false', 'FALSE', False),
    ('num_one_float', '1.0', 1.0), ('text', '"apple"', 'apple'), ('text_upper', '"APPLE"', 'APPLE'),
    ('gt', '">5"', '>5'), ('lt', '"<5"', '<5'), ('ge', '">=5"', '>=5'), ('le', '"<=5"', '<=5'), ('ne', '"<>5"', '<>5'),
    ('eq', '"=5"', '=5'), ('gt0', '">0"', '>0'), ('lt_dec', '"<5.5"', '<5.5'),
    ('ne_text', '"<>apple"', '<>apple'), ('eq_text', '"=apple"', '=apple'),
    ('gt_cell', '">"&F1', '>5'), ('ne_cell', '"<>"&F1', '<>5'), ('ne_cell_text', '"<>"&I1', '<>apple'), ('le_cell', '"<="&F1', '<=5'),
    ('cell_num', 'F1', 5), ('cell_op', 'G1', '>5'), ('cell_text', 'I1', 'apple'),
    ('gt_text', '">b"', '>b'), ('le_text_upper', '"<=Apple"', '<=Apple'), ('ge_text_upper', '">=B"', '>=B'), ('lt_text', '"<pear"', '<pear'),
    ('lt_text_cell', '"<"&J1', '<Pear'),
    ('wild_prefix', '"a*"', 'a*'), ('wild_q', '"?pple"', '?pple'), ('wild_suffix', '"*e"', '*e'), ('wild_all', '"*"', '*'),
    ('wild_escape', '"p~*r"', 'p~*r'), ('wild_len', '"????"', '????'), ('wild_mid', '"p*r"', 'p*r'),
]
FIXED = {'F1': 5, 'G1': '>5', 'I1': 'apple', 'J1': 'Pear', 'Z9': 0}

# function variants: name -> (formula template with {c}, kind, second pair?)
VARIANTS = [
    ('SUMIF/2', '=SUMIF(A1:A{n},{c})', 'sumself', False),
    ('SUMIF/3', '=SUMIF(A1:A{n},{c},B1:B{n})', 'sum', False),
    ('SUMIFS/1', '=SUMIFS(B1:B{n},A1:A{n},{c})', 'sum', False),
    ('SUMIFS/2', '=SUMIFS(B1:B{n},A1:A{n},{c},C1:C{n},">5")', 'sum', True),
    ('COUNTIFS/1', '=COUNTIFS(A1:A{n},{c})', 'count', False),
    ('COUNTIFS/2', '=COUNTIFS(A1:A{n},{c},C1:C{n},">5")', 'count', True),
    ('COUNTIFS/2r', '=COUNTIFS(C1:C{n},">5",A1:A{n},{c})', 'count', True),
    ('COUNTIFS/3', '=COUNTIFS(D1:D{n},"<>t",A1:A{n},{c},C1:C{n},">5")', 'count', 'third'),
    ('SUMIFS/3', '=SUMIFS(B1:B{n},C1:C{n},">5",D1:D{n},"<>t",A1:A{n},{c})', 'sum', 'third'),
    ('AVERAGEIFS/3', '=AVERAGEIFS(B1:B{n},A1:A{n},{c},D1:D{n},"<>t",C1:C{n},">5")', 'avg', 'third'),
    ('AVERAGEIFS/1', '=AVERAGEIFS(B1:B{n},A1:A{n},{c})', 'avg', False),
    ('AVERAGEIFS/2', '=AVERAGEIFS(B1:B{n},A1:A{n},{c},C1:C{n},">5")', 'avg', True),
    ('SUMIF/3mixed', '=SUMIF(A1:A{n},{c},D1:D{n})', 'sum2', False),
    ('SUMIFS/1mixed', '=SUMIFS(D1:D{n},A1:A{n},{c})', 'sum2', False),
    # SUMIF: the sum range is anchored at its top-left cell and takes the shape of the criteria range
    ('SUMIF/3corner', '=SUMIF(A1:A{n},{c},B1)', 'sum', False),
    ('SUMIF/3short', '=SUMIF(A1:A{n},{c},B1:B2)', 'sum', False),
    ('SUMIF/3long', '=SUMIF(A1:A{n},{c},B1:B6)', 'sum', False),
    ('SUMIF/3wholecol', '=SUMIF(A1:A{n},{c},B:B)', 'sum', False),
    # criteria range that does not start in row 1 against whole columns: the sum range is anchored at its first cell (B1)
    ('SUMIF/3wholecol-shifted', '=SUMIF(A2:A{n},{c},B:B)', 'sum_shift', False),
    ('SUMIF/3lower', '=SUMIF(A1:A{n},{c},B2:B{p})', 'sum_lower1', False),
    ('SUMIF/3lowercorner', '=SUMIF(A1:A{n},{c},B3)', 'sum_lower2', False),
    ('SUMIF/3lowershort', '=SUMIF(A1:A{n},{c},E3:E4)', 'sum_e', False),
    # the target lies on another sheet, at the very address of the criteria range
    ('SUMIF/3othersheet', '=SUMIF(A1:A{n},{c},T!A1:A{n})', 'sum_t', False),
    ('SUMIFS/1othersheet', '=SUMIFS(T!A1:A{n},A1:A{n},{c})', 'sum_t', False),
    # criteria range and target of two rows and two columns (sheet U): positions correspond in row-major order
    ('SUMIFS/2x2', '=SUMIFS(U!D1:E2,U!A1:B2,{c})', 'sum_2x2', False),
    ('COUNTIFS/2x2', '=COUNTIFS(U!D1:E2,">1",U!A1:B2,{c})', 'count_2x2', False),
    ('AVERAGEIFS/2x2', '=AVERAGEIFS(U!D1:E2,U!A1:B2,{c},U!D1:E2,"<8")', 'avg_2x2', False),
    # a criteria range lying in one row and running from a one-letter column into the two-letter columns
    ('SUMIFS/wide-row', '=SUMIFS(Y150:AB150,Y150:AB150,">0")', 'fixed10', False),
    ('COUNTIFS/wide-row', '=COUNTIFS(Y150:AB150,">2",Z150:AC150,"<>3")', 'fixed2', False),
    # different sizes: an error, never a number
    ('SUMIFS/short', '=SUMIFS(B1:B{m},A1:A{n},{c})', 'error', False),
    ('SUMIFS/long', '=SUMIFS(B1:B{p},A1:A{n},{c})', 'error', False),
    ('COUNTIFS/short2', '=COUNTIFS(A1:A{n},{c},C1:C{m},">5")', 'error', True),
    ('AVERAGEIFS/short', '=AVERAGEIFS(B1:B{m},A1:A{n},{c})', 'error', False),
    ('AVERAGEIFS/long2', '=AVERAGEIFS(B1:B{n},A1:A{n},{c},C1:C{p},">5")', 'error', True),
    # the same number of rows but another number of columns: still a different size
    ('SUMIFS/2d-target', '=SUMIFS(B1:C{n},A1:A{n},{c})', 'error', False),
    ('COUNTIFS/2d-second', '=COUNTIFS(A1:A{n},{c},C1:D{n},">5")', 'error', True),
    ('AVERAGEIFS/2d-target', '=AVERAGEIFS(B1:C{n},A1:A{n},{c})', 'error', False),
    ('SUMIFS/2d-third', '=SUMIFS(B1:B{n},A1:A{n},{c},C1:C{n},">5",D1:E{n},"<>t")', 'error', True),
]


import datetime
DATE_CELL = datetime.datetime(2020, 1, 31)   # serial 43861
# criteria whose text is assembled from a cell that is not an integer: the text form of the cell decides
FORMS_TF = [
    ('gt_cell_date', '">"&L1', '>43861'), ('ne_cell_date', '"<>"&L1', '<>43861'), ('le_cell_date', '"<="&L1', '<=43861'),
    ('eq_cell_float17', '"="&O1', '=0.3'), ('ne_cell_float17', '"<>"&O1', '<>0.3'), ('lt_cell_intfloat', '"<"&M1', '<5'),
    ('eq_cell_num', '"="&F1', '=5'),
    ('two_blanks', '"a  b"', 'a  b'), ('ne_two_blanks', '"<>a  b"', '<>a  b'), ('wild_two_blanks', '"a  *"', 'a  *'),
    ('tab_inside', '"a\tb"', 'a\tb'),
    ('tilde_tilde', '"a~~b"', 'a~~b'), ('ne_tilde_tilde', '"<>a~~b"', '<>a~~b'), ('eq_tilde_q', '"=a~?b"', '=a~?b'), ('tilde_star_cell', '"="&P1', '=a~*b'),
]
FIXED_TF = {'L1': DATE_CELL, 'O1': '=0.1+0.2', 'M1': '=10/2', 'P1': 'a~*b'}
KINDS_TF = [43860, 43862, 0.3, 5, 'apple', None, 'a~b', 'ab', 'a?b', 'a*b', 'a  b', 'a b']


def build(n, tf=False):
    forms = FORMS_TF if tf else FORMS
    cells = dict(FIXED)
    if tf:
        cells.update(FIXED_TF)
    for i in range(4):
        cells[f'B{i + 1}'] = TARGET[i]
        cells[f'C{i + 1}'] = SECOND[i]
        if TARGET2[i] is not None:
            cells[f'D{i + 1}'] = TARGET2[i]
    cells['B5'] = 1000
    cells['B6'] = 2000
    for i, v in enumerate(TARGET_E):
        cells[f'E{i + 3}'] = v
    cells['C5'] = 9
    cells.update({'Y150': 1, 'Z150': 2, 'AA150': 3, 'AB150': 4, 'AC150': 5})
    meta = []
    row = 20
    for fi, (fname, ftext, fval) in enumerate(forms):
        for vi, (vname, tmpl, kind, second) in enumerate(VARIANTS):
            col = D_col(vi)
            addr = f'{col}{row}'
            cells[addr] = tmpl.format(n=n, m=n - 1, p=n + 1, c=ftext)
            meta.append((addr, fi, vi))
        row += 1
    block = {'D1': TARGET[0], 'E1': TARGET[1], 'D2': TARGET[2], 'E2': TARGET[3], 'B2': BLOCK_FIXED}
    return [('S', cells), ('T', {f'A{i + 1}': v for i, v in enumerate(TARGET_T)}), ('U', block)], meta


def D_col(i):
    from openpyxl.utils import get_column_letter
    return get_column_letter(11 + i)  # K..


_BUILT = {}


def built(n, tf=False):
    if (n, tf) not in _BUILT:
        _BUILT[(n, tf)] = build(n, tf)
    return _BUILT[(n, tf)]


# ---------------------------------------------------------------------------------------------
# reference criterion matcher

_OP = re.compile(r'^(>=|<=|<>|>|<|=)(.*)$', re.S)
_NUM = re.compile(r'^-?\d+(\.\d+)?$')


def is_num(v):
    return isinstance(v, (int, float)) and not isinstance(v, bool)


def wild_regex(t):
    out, i = [], 0
    while i < len(t):
        c = t[i]
        if c == '~' and i + 1 < len(t) and t[i + 1] in '?*~':
            out.append(re.escape(t[i + 1]))
            i += 2
            continue
        out.append('.' if c == '?' else ('.*' if c == '*' else re.escape(c)))
        i += 1
    return re.compile(''.join(out), re.I | re.S)


def predicate(crit):
    """-> function cell -> bool ; raises R.Unspecified where the statement is silent."""
    if isinstance(crit, bool):
        return lambda x: isinstance(x, bool) and x is crit     # a logical criterion selects logical cells only
    if is_num(crit):
        op, operand = '=', crit
    elif isinstance(crit, str):
        m = _OP.match(crit)
        op, rest = (m.group(1), m.group(2)) if m else ('=', crit)
        if rest == '':
            raise R.Unspecified('empty criterion')
        operand = (float(rest) if '.' in rest else int(rest)) if _NUM.match(rest) else rest
    else:
        raise R.Unspecified('criterion kind')
    if is_num(operand):
        def eq(x):
            if isinstance(x, str) and _NUM.match(x):
                raise R.Unspecified('numeric text against a number')
            return is_num(x) and x == operand
        if op == '=':
            return eq
        if op == '<>':
            return lambda x: not eq(x)
        cmp = {'>': lambda a: a > operand, '<': lambda a: a < operand, '>=': lambda a: a >= operand, '<=': lambda a: a <= operand}[op]
        return lambda x: is_num(x) and cmp(x)
    if op not in ('=', '<>'):
        # texts are ordered ignoring case; only plain ASCII words are enumerated, so the collation is not in question
        if not re.fullmatch('[A-Za-z]+', operand):
            raise R.Unspecified('ordering operator with a text that is not a plain word')
        low = operand.lower()
        tcmp = {'>': lambda a: a > low, '<': lambda a: a < low, '>=': lambda a: a >= low, '<=': lambda a: a <= low}[op]

        def tord(x):
            if isinstance(x, str) and not re.fullmatch('[A-Za-z]+', x):
                raise R.Unspecified('collation of a text that is not a plain word')
            return isinstance(x, str) and tcmp(x.lower())
        return tord
    rx = wild_regex(operand)

    def teq(x):
        return isinstance(x, str) and rx.fullmatch(x) is not None
    return teq if op == '=' else (lambda x: not teq(x))


def expected(kind, second, vec, crit):
    pred = predicate(crit)
    n = len(vec)
    sel = [i for i in range(n) if pred(vec[i]) and (not second or SECOND[i] > 5) and (second != 'third' or TARGET2[i] != 't')]
    if kind == 'count':
        return len(sel), sel
    if kind == 'sum':
        return sum(TARGET[i] for i in sel), sel
    if kind in ('sum_lower1', 'sum_lower2', 'sum_e'):
        col = {'sum_lower1': (TARGET + [1000, 2000])[1:], 'sum_lower2': (TARGET + [1000, 2000])[2:], 'sum_e': TARGET_E}[kind]
        return sum(col[i] for i in sel), sel
    if kind in ('sum_2x2', 'count_2x2', 'avg_2x2'):
        cells4 = (list(vec) + [None, None, None])[:3] + [BLOCK_FIXED]
        sel = [i for i in range(4) if pred(cells4[i])]
        if kind == 'sum_2x2':
            return sum(TARGET[i] for i in sel), sel
        if kind == 'count_2x2':
            return len([i for i in sel if TARGET[i] > 1]), sel
        sel = [i for i in sel if TARGET[i] < 8]
        return (sum(TARGET[i] for i in sel) / len(sel) if sel else R.Err('ANY')), sel
    if kind == 'fixed10':
        return 10, []
    if kind == 'fixed2':
        return 2, []       # Y150:AB150 > 2 at AA150, AB150; their partners AB150 = 4 and AC150 = 5 are both <> 3
    if kind == 'sum_t':
        return sum(TARGET_T[i] for i in sel), sel
    if kind == 'sum_shift':
        sel = [i for i in range(1, n) if pred(vec[i])]
        return sum(TARGET[i - 1] for i in sel), sel
    if kind == 'sumself':
        return sum(vec[i] for i in sel if is_num(vec[i])), sel
    if kind == 'sum2':
        return sum(TARGET2[i] for i in sel if is_num(TARGET2[i])), sel
    if kind == 'avg':
        if not sel:
            return R.Err('ANY'), sel
        return sum(TARGET[i] for i in sel) / len(sel), sel
    if kind == 'error':
        return R.Err('ANY'), sel
    raise AssertionError(kind)


def kinds_of(vec):
    out = set()
    for v in vec:
        out.add('blank' if v is None else ('text' if isinstance(v, str) else ('zero' if v == 0 else 'num')))
    return sorted(out)


def crit_class(fname):
    if fname.startswith('wild'):
        return 'wildcard'
    if fname in ('num', 'zero', 'num7', 'cell_num', 'num_one', 'num_one_float', 'bool_true', 'bool_false'):
        return 'number'
    if fname in ('text', 'text_upper', 'cell_text'):
        return 'text'
    if fname in ('ne_text', 'eq_text', 'ne_cell_text'):
        return 'op_text'
    return 'op_number'


def judge(vec, outs, meta, src, stats, i, vio, tf=False):
    for (addr, fi, vi), o in zip(meta, outs):
        fname, ftext, fval = (FORMS_TF if tf else FORMS)[fi]
        vname, tmpl, kind, second = VARIANTS[vi]
        stats['out:' + S.out_label(o)] += 1
        try:
            want, sel = expected(kind, second, vec, fval)
        except R.Unspecified:
            stats['x:not_judged'] += 1
            continue
        stats['validated'] += 1
        stats['nontrivial'] += 1
        ok, _ = R.same_value(want, o, tol=1e-12 if kind == 'avg' else 0.0)
        if not ok:
            k, v = o
            m = _OP.match(fval) if isinstance(fval, str) else None
            # which cell kinds sit at the positions the implementation got wrong cannot be read off a sum in general;
            # the descriptor names the kinds present in the range
            vio.append({'i': i, 'desc': {'func': vname.split('/')[0], 'variant': vname, 'crit_form': fname, 'crit_class': crit_class(fname),
                                         'op': m.group(1) if m else 'none', 'range_kinds': kinds_of(vec), 'src': src,
                                         'aligned': kind != 'error', 'selected': len(sel),
                                         'outcome': 'VALUE_MISMATCH' if k == 'VALUE' else k},
                        'expected': repr(want) if isinstance(want, R.Err) else want,
                        'observed': {'range': D.enc(vec), 'criterion': fval, 'formula': tmpl.format(n=len(vec), m=len(vec) - 1, p=len(vec) + 1, c=ftext),
                                     'got': S.obs(o)}})


def run_ov(cases, stats):
    vio = []
    for i, c in enumerate(cases):
        tf = bool(c.get('tf'))
        kinds = KINDS_TF if tf else (KINDS_T if c.get('t') else KINDS_Q)
        vec = [kinds[j] for j in c['v']]
        sheets, meta = built(len(vec), tf)
        cls = S.get_class(sheets, stats=stats)
        ov = [(f'A{k + 1}', v) for k, v in enumerate(vec) if v is not None]
        ov += [(('U', a), v) for a, v in zip(('A1', 'B1', 'A2'), vec) if v is not None]
        outs = S.run(cls, ov, [a for a, *_ in meta], stats)
        judge(vec, outs, meta, 'ov', stats, i, vio, tf)
    return vio


def run_cell(cases, stats):
    vio = []
    for i, c in enumerate(cases):
        vec = [KINDS_T[j] for j in c['v']]
        sheets, meta = built(len(vec))
        cells = dict(sheets[0][1])
        for k, v in enumerate(vec):
            if v is not None:
                cells[f'A{k + 1}'] = v
        ublock = dict(sheets[2][1])
        for a, v in zip(('A1', 'B1', 'A2'), vec):
            if v is not None:
                ublock[a] = v
        kind, cls = S.try_class([('S', cells), sheets[1], ('U', ublock)], stats=stats)
        S._CACHE.clear()
        if kind != 'OK':
            vio.append({'i': i, 'desc': {'func': 'workbook', 'src': 'cell', 'outcome': 'SCAFFOLD'}, 'expected': 'translates',
                        'observed': str(cls)[:300]})
            continue
        outs = S.run(cls, [], [a for a, *_ in meta], stats)
        judge(vec, outs, meta, 'cell', stats, i, vio)
    return vio


def plan(tier, seed):
    th = tier == 'thorough'

    def vecs():
        n = 4 if th else 3
        size = len(KINDS_T) if th else len(KINDS_Q)
        for v in itertools.product(range(size), repeat=n):
            yield {'v': list(v), 't': th}
        if th:
            for v in itertools.product(range(len(KINDS_Q)), repeat=3):
                yield {'v': list(v), 't': False}
        else:
            # length 4 over the core kinds that separate the criterion classes
            core = [1, 5, 4, 7]  # indices of 5, "Apple", "apple", blank  in KINDS_Q
            for v in itertools.product([1, 2, 5, 7], repeat=4):
                yield {'v': list(v), 't': False}

    def consts():
        for n in (2,):
            for v in itertools.product(range(len(KINDS_T)), repeat=n):
                yield {'v': list(v)}

    def tf_vecs():
        for v in itertools.product(range(len(KINDS_TF)), repeat=3):
            yield {'v': list(v), 'tf': True}

    return [
        {'name': 'criteria-override', 'cases': vecs(), 'runner': 'run_ov', 'chunk': 32},
        {'name': 'criteria-assembled-from-noninteger-cells', 'cases': tf_vecs(), 'runner': 'run_ov', 'chunk': 32},
        {'name': 'criteria-constant', 'cases': consts(), 'runner': 'run_cell', 'chunk': 2},
    ]
