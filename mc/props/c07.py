"""C07 - workbook text never becomes executable code.  BE over strings x positions."""
import ast
import builtins
import warnings
import itertools
import re

from mc import driver as D

PROP = 'C07'
RULE = ('ALL strings up to the length bound over the 14-character alphabet {a \' " \\ newline # { } % * ? ~ ( blank} plus a fixed '
        'payload list, each placed in: a constant cell, a plain formula literal, two and three concatenated literals, the '
        'criterion of SUMIF / SUMIFS / COUNTIFS / AVERAGEIFS (plain and operator-prefixed with &), SEARCH and IF operands, a '
        'sheet title (Excel-legal subset) referenced from a formula; safety check on and off.  Oracles: (1) AST '
        'non-interference - the methods generated for the string have the same AST shape (constants abstracted) as those '
        'generated for a benign string of the same lexical class in the same position; (2) a canary attribute on builtins '
        'that every payload would set; (3) round trip: constant cell, plain literal and concatenations evaluate to exactly the '
        'string.  non-trivial = string with at least one character other than a')
ASSUMPTIONS = ['strings containing a double quote are not placed in literal positions (the lexer has no escape for it)',
               'a rejection (library exception) is acceptable; a module that does not load is a violation',
               'lexical class (wildcard pattern or plain literal) is decided by an independent regular expression']

ALPHA = ['a', "'", '"', '\\', '\n', '#', '{', '}', '%', '*', '?', '~', '(', ' ']
CANARY = 'E2PYCL_CANARY'
SET = f"__import__('builtins').__dict__.__setitem__('{CANARY}',1)"
warnings.filterwarnings('ignore', message='Title is more than 31 characters')
PAYLOADS = [
    "'+str(" + SET + ")+'", '"+str(' + SET + ')+"', "\\'+str(" + SET + ")+\\'", "'+str(" + SET + ")#", "\\", "\\\\", "a\\",
    "'''", '"""', "'\\", "\\'", "{0}", "{titles}", "{functions}", "{}", "{{}}", "{0.__class__}", "%s", "%(x)s", "%",
    "');" + SET + "#", "')\n        " + SET + "\n        #", "'\n    def x(self):\n        pass\n#", "\\N{DIGIT ONE}", "\\x41", "\\n",
    "*'+str(" + SET + ")+'*", "?'+str(" + SET + ")+'", "a*\\", "*\\'", "~*'", "~?\\", "' or " + SET + " or '",
    "'+str(__import__ ('builtins').__dict__.__setitem__('" + CANARY + "',1))+'", "f'{" + SET + "}'", "${" + SET + "}",
    "'if " + SET + " else'", ")\n" + SET + "\n(", "';import os;'", "\t", "a\x0bb" if False else "a b", "`" + SET + "`",
    ">0 or " + SET, ">0+len([" + SET + "])", "<>0);" + SET + "#", ">=1e5" + SET, "=1 or 1", "<1) or (" + SET,
    # quote-free criteria (repr keeps them single-quoted): anything after the number must stay text
    ">0 or True", ">0+len([1])", "<>0) or (1", ">=1e5+1", "<5 if 1 else 2", ">0 and x", "<=2**9", ">1;2", "<>1#", ">0 or globals()",
    ">0+len([globals().update(%s=1)])" % CANARY, "<>0 or vars(__builtins__).update(%s=1)" % CANARY,
    # well-formed operator criteria (their own lexical classes)
    ">5", "<5", ">=5", "<=2.5", "<>3", ">1e2", ">", "<>", "<=",
]
OPNUM = re.compile(r'^(>=|<=|<>|>|<)((\d+)((\.)(\d+))?(e(-?\d+))?)?$')
POSITIONS = ['const', 'lit', 'cat2', 'cat3', 'sumif', 'sumif_op', 'sumifs', 'countifs', 'averageifs', 'search', 'if', 'lit_lead', 'crit_lead', 'crit_lead2']


def strings(maxlen):
    for n in range(1, maxlen + 1):
        for t in itertools.product(ALPHA, repeat=n):
            yield ''.join(t)


def plan(tier, seed):
    maxlen = 4 if tier == 'thorough' else 3

    def gen():
        yield {'s': ''}      # the empty text: a literal only (an xlsx cell cannot hold it)
        for s in strings(maxlen):
            yield {'s': s}
        for s in PAYLOADS:
            yield {'s': s}
    phases = [{'name': 'strings-in-cells-and-formulas', 'cases': gen(), 'runner': 'run_strings', 'chunk': 30}]

    def titles():
        # everything openpyxl lets through (an attacker does not need Excel to write the file): only \\ / * ? : [ ] are refused
        legal = [c for c in ALPHA if c not in '\\*?'] + ['!', '.', '=', ',', ';', '[x' if False else '+', '$']
        for n in range(1, 4 if tier == 'thorough' else 3):
            for t in itertools.product(legal, repeat=n):
                s = ''.join(t)
                if not s.strip():
                    continue
                yield {'title': s}
        for s in PAYLOADS:
            if not re.search(r'[\\/*?:\[\]]', s):   # openpyxl only warns about more than 31 characters
                yield {'title': s}
    phases.append({'name': 'sheet-titles', 'cases': titles(), 'runner': 'run_titles', 'chunk': 20})
    return phases


def base_index(s, base):
    if '"' in s:
        return 2
    m = OPNUM.match(s)
    if m:
        return base.index(m.group(1) + ('7' if m.group(2) else ''))
    return 1 if is_pattern(s) else 0


def _numlike(s):
    try:
        float(s)
        return True
    except ValueError:
        return False


def is_pattern(s):
    return re.search(r'(?<!~)[?*]', s) is not None


def items_for(s, const_only=False):
    """item with one formula per applicable position; returns (item, {addr: position})"""
    lit_ok = '"' not in s and not const_only
    f = {}
    pos = {}
    # the empty text exists as a literal only: an xlsx cell cannot hold it, the constant position gets a one-letter stand-in
    cells = {'A@0': s if s != '' else 'k', 'A@1': 'zz', 'B@0': 1, 'B@1': 2, 'C@0': 'x' + s + 'y'}

    def add(col, p, text):
        f[col + '@0'] = text
        pos[col + '@0'] = p
    if lit_ok:
        q = '"' + s + '"'
        add('E', 'lit', '=' + q)
        add('F', 'cat2', '=' + q + '&' + q)
        add('G', 'cat3', '="x"&' + q + '&"y"')
        add('H', 'sumif', f'=SUMIF(A@0:A@1,{q},B@0:B@1)')
        add('I', 'sumif_op', f'=SUMIF(A@0:A@1,">"&{q},B@0:B@1)')
        add('J', 'sumifs', f'=SUMIFS(B@0:B@1,A@0:A@1,{q})')
        add('K', 'countifs', f'=COUNTIFS(A@0:A@1,{q})')
        add('L', 'averageifs', f'=AVERAGEIFS(B@0:B@1,A@0:A@1,{q})')
        add('M', 'search', f'=SEARCH({q},C@0)')
        add('N', 'if', f'=IF(A@0={q},1,2)')
        add('O', 'lit_lead', f'=SUMIF(A@0:A@1,"<>"&{q})')
        add('P', 'crit_lead', f'=SUMIF(A@0:A@1,{q}&B@0,B@0:B@1)')
        add('Q', 'crit_lead2', f'=COUNTIFS(A@0:A@1,{q}&"")')
    return {'f': f, 'cells': cells, 'h': 2}, pos


def shape(node):
    """AST dump with constants abstracted"""
    class T(ast.NodeTransformer):
        def visit_Constant(self, n):
            t = 'num' if type(n.value) in (int, float) else type(n.value).__name__
            return ast.copy_location(ast.Constant(value=t), n)
    return ast.dump(T().visit(node))


def method_shapes(text):
    tree = ast.parse(text)
    cls = [n for n in tree.body if isinstance(n, ast.ClassDef) and n.name == 'ExcelInPython'][0]
    out = {}
    for n in cls.body:
        if isinstance(n, ast.FunctionDef) and re.fullmatch(r'_\d+_\d+_\d+(_\d+)?', n.name):
            out[n.name] = shape(ast.Module(body=n.body, type_ignores=[]))
    return out, len(tree.body), [type(n).__name__ for n in tree.body]


def row_shapes(shapes, base, height):
    """shapes of the methods belonging to rows base..base+height-1 (0-based rows in uids), names made relative"""
    out = {}
    for name, sh in shapes.items():
        p = name.split('_')
        row = int(p[3])
        if base - 1 <= row < base - 1 + height:
            rel = f'c{p[2]}_r{row - (base - 1)}' + (f'_s{p[4]}' if len(p) > 4 else '')
            out[rel] = sh
    return out


def run_strings(cases, stats):
    vio = []
    for safety in (False, True):
        strs = [c['s'] for c in cases]
        # baselines first: benign literal and benign pattern
        # baselines: benign literal, benign pattern, benign constant-only item, operator criteria with / without a number
        BASE = ['a', 'a*', 'a', '>7', '<7', '>=7', '<=7', '<>7', '>', '<', '>=', '<=', '<>']
        NB = len(BASE)
        allstr = BASE + strs
        built = [items_for(s, const_only=(k == 2)) for k, s in enumerate(allstr)]
        items = [b[0] for b in built]
        comps = D.compile_items(items, safety=safety, stats=stats, batch=len(items))
        setattr(builtins, CANARY, 0)
        for k, comp in enumerate(comps):
            s = allstr[k]
            if k >= NB and not safety and s != 'a' * len(s):
                stats['nontrivial'] += 1
            stats['out:' + comp[0]] += 1
            if comp[0] != 'OK' and k >= NB and (comp[0].startswith('LOAD_ERROR') or comp[0] == 'TIMEOUT'):
                vio.append({'i': k - NB, 'desc': {'clause': 'load', 'safety': safety, 'chars': chars_of(s), 'outcome': comp[0]},
                            'expected': 'a loadable module or a library exception', 'observed': [s, str(comp[1])[:200]]})
        # compile_items does not expose the text; do the AST comparison with an own translation of the same layout
        ok_items = [(k, built[k]) for k in range(len(allstr)) if comps[k][0] == 'OK']
        if ok_items:
            sheets, bases = D.layout([b[0] for _, b in ok_items])
            kind, text = D.translate(sheets, safety=safety)
            stats['transitions'] += 1
            if kind == 'TEXT':
                shapes, nbody, kinds = method_shapes(text)
                if kinds.count('ClassDef') != 1 or any(k not in ('Import', 'ImportFrom', 'ClassDef') for k in kinds):
                    vio.append({'i': 0, 'desc': {'clause': 'module_shape', 'safety': safety, 'outcome': 'AST'},
                                'expected': 'imports + one class', 'observed': kinds})
                rel = {}
                for (k, b), base in zip(ok_items, bases):
                    rel[k] = row_shapes(shapes, base, 2)
                for (k, b), base in zip(ok_items, bases):
                    if k < NB:
                        continue
                    s = allstr[k]
                    ref = rel.get(base_index(s, BASE))
                    if ref is None:
                        continue
                    stats['validated'] += 1
                    if rel[k] != ref:
                        diff = sorted(n for n in set(ref) | set(rel[k]) if ref.get(n) != rel[k].get(n))
                        cols = sorted({b[1].get(chr(65 + int(n.split('_')[0][1:])) + '@0', 'cell') for n in diff})
                        vio.append({'i': k - NB, 'desc': {'clause': 'ast_shape', 'safety': safety, 'positions': cols,
                                                         'chars': chars_of(s), 'outcome': 'AST'},
                                    'expected': 'the AST shape of the benign string', 'observed': [s, diff[:6]]})
        # round trip + canary through the loaded classes
        for k, (comp, (item, pos)) in enumerate(zip(comps, built)):
            if k < NB or comp[0] != 'OK':
                continue
            s = allstr[k]
            res = D.eval_compiled(comp, item, None, stats, addrs=['A@0', 'C@0'] + list(item['f']))
            expect = {'A@0': s, 'C@0': 'x' + s + 'y'}
            if s == '':
                del expect['A@0']
            for a, p in pos.items():
                if p == 'lit':
                    expect[a] = s
                elif p == 'cat2':
                    expect[a] = s + s
                elif p == 'cat3':
                    expect[a] = 'x' + s + 'y'
                elif p == 'search' and s and not re.search(r'[?*~]', s):
                    # a find text without wildcards is found where it was planted: behind the x of "x" + s + "y"
                    expect[a] = 2
                elif p == 'crit_lead2' and s and re.fullmatch(r'[^<>=?*~]+', s) and not _numlike(s):
                    # the criterion is the text itself (no operator, no wildcard): it selects the one cell that holds it
                    expect[a] = 1
            for a, e in expect.items():
                out = res[a]
                stats['validated'] += 1
                if not (out[0] == 'VALUE' and type(out[1]) is type(e) and out[1] == e):
                    vio.append({'i': k - NB, 'desc': {'clause': 'round_trip', 'safety': safety, 'position': pos.get(a, 'const'),
                                                     'chars': chars_of(s),
                                                     'outcome': out[0] if out[0] != 'VALUE' else 'VALUE_MISMATCH'},
                                'expected': e, 'observed': [s, D.enc(out[1]) if out[0] == 'VALUE' else list(out)]})
            if getattr(builtins, CANARY, 0):
                setattr(builtins, CANARY, 0)
                vio.append({'i': k - NB, 'desc': {'clause': 'canary', 'safety': safety, 'chars': chars_of(s), 'outcome': 'EXECUTED'},
                            'expected': 'no code from the workbook is executed', 'observed': [s]})
    return vio


def chars_of(s):
    return sorted({c if c not in '\n\r\t' else repr(c)[1:-1] for c in s if c != 'a' and not c.isalnum()})[:8]


def run_titles(cases, stats):
    vio = []
    for i, c in enumerate(cases):
        t = c['title']
        q = "'" + t.replace("'", "''") + "'"
        # the title is also planted as a text constant - unless it starts with '=' (openpyxl would store a formula)
        b1 = 'txt' if t.startswith('=') else t
        # the template's own placeholders as cell texts, and a third sheet without any cell that carries the title too
        sheets = [('Main', {'A1': f'={q}!B2+1', 'A2': f'=SUM({q}!A1:B2)', 'A3': 5, 'D1': '{titles}', 'D2': '{sheets_size}{functions}',
                            'D3': '="{titles}"&"{sheets_size}"'}),
                  (t, {'A1': 1, 'B2': 41, 'B1': b1}), ((t + '#')[:31] if len(t) < 31 else 'Z' + t[1:], {})]
        base = [('Main', {'A1': "='ab'!B2+1", 'A2': "=SUM('ab'!A1:B2)", 'A3': 5, 'D1': '{titles}', 'D2': '{sheets_size}{functions}',
                          'D3': '="{titles}"&"{sheets_size}"'}),
                ('ab', {'A1': 1, 'B2': 41, 'B1': 'ab'}), ('ab#', {})]
        stats['nontrivial'] += 1
        # layout 2: the title is the title of the ONLY sheet (whatever is derived from the title table then holds nothing else)
        for ph, safety in itertools.product(('{titles}', '{sheets_size}', '{functions}'), (False, True)):
            single = [(t, {'A1': 1, 'B2': 41, 'C1': '=B2+A1', 'D1': ph, 'D3': f'="<"&"{ph}"&">"'})]
            setattr(builtins, CANARY, 0)
            try:
                k1, text1 = D.translate(single, safety=safety)
            except Exception:  # noqa  openpyxl refuses the title
                break
            stats['transitions'] += 1
            if k1 != 'TEXT':
                continue
            k2, cls1, _ = D.load_class(text1)
            if k2 != 'CLASS':
                vio.append({'i': i, 'desc': {'clause': 'load', 'position': 'only-title', 'safety': safety, 'chars': chars_of(t),
                                             'outcome': k2}, 'expected': 'a loadable module', 'observed': [t, str(cls1)[:200]]})
                continue
            ex1 = D.new_executor(cls1)
            got = [D.eval_cell(ex1, 0, 2, 0), D.eval_cell(ex1, 0, 3, 0), D.eval_cell(ex1, 0, 3, 2)]
            want = [('VALUE', 42), ('VALUE', ph), ('VALUE', '<' + ph + '>')]
            stats['validated'] += 1
            if got != want or list(ex1.get_executed_class().get_titles()) != [t]:
                vio.append({'i': i, 'desc': {'clause': 'round_trip', 'position': 'only-title', 'safety': safety, 'chars': chars_of(t),
                                             'placeholder': ph, 'outcome': 'VALUE_MISMATCH'}, 'expected': [list(w) for w in want],
                            'observed': [t, [list(o) for o in got]]})
            if getattr(builtins, CANARY, 0):
                setattr(builtins, CANARY, 0)
                vio.append({'i': i, 'desc': {'clause': 'canary', 'position': 'only-title', 'safety': safety, 'outcome': 'EXECUTED'},
                            'expected': 'payload never runs', 'observed': [t]})
        for safety in (False, True):
            setattr(builtins, CANARY, 0)
            try:
                kind, text = D.translate(sheets, safety=safety)
            except Exception as e:  # openpyxl refuses the title: not a readable workbook
                stats['out:unwritable'] += 1
                break
            stats['transitions'] += 1
            stats['out:' + kind] += 1
            if kind != 'TEXT':
                continue
            k2, cls, ns = D.load_class(text)
            if k2 != 'CLASS':
                vio.append({'i': i, 'desc': {'clause': 'load', 'position': 'title', 'safety': safety, 'chars': chars_of(t),
                                             'outcome': k2}, 'expected': 'a loadable module', 'observed': [t, str(cls)[:200]]})
                continue
            bk, btext = D.translate(base, safety=safety)
            s1, _, k1 = method_shapes(text)
            s2, _, kb = method_shapes(btext)
            stats['validated'] += 1
            if s1 != s2 or k1 != kb:
                vio.append({'i': i, 'desc': {'clause': 'ast_shape', 'position': 'title', 'safety': safety, 'chars': chars_of(t),
                                             'outcome': 'AST'}, 'expected': 'the AST shape of a benign title', 'observed': [t]})
            ex = D.new_executor(cls)
            inst = ex.get_executed_class()
            outs = [D.eval_cell(ex, 0, 0, 0), D.eval_cell(ex, 0, 0, 1), D.eval_cell(ex, 1, 1, 0), D.eval_cell(ex, 0, 3, 0),
                    D.eval_cell(ex, 0, 3, 1), D.eval_cell(ex, 0, 3, 2)]
            b1_ok = outs[2] == ('VALUE', b1) and outs[3] == ('VALUE', '{titles}') and outs[4] == ('VALUE', '{sheets_size}{functions}') \
                and outs[5] == ('VALUE', '{titles}{sheets_size}')
            if list(inst.get_titles())[:2] != ['Main', t] or outs[0] != ('VALUE', 42) or outs[1] != ('VALUE', 42) or not b1_ok:
                vio.append({'i': i, 'desc': {'clause': 'round_trip', 'position': 'title', 'safety': safety, 'chars': chars_of(t),
                                             'outcome': 'VALUE_MISMATCH'}, 'expected': [['Main', t], 42, 42, t],
                            'observed': [list(inst.get_titles()), [list(o) for o in outs]]})
            if getattr(builtins, CANARY, 0):
                setattr(builtins, CANARY, 0)
                vio.append({'i': i, 'desc': {'clause': 'canary', 'position': 'title', 'safety': safety, 'outcome': 'EXECUTED'},
                            'expected': 'no code from the workbook is executed', 'observed': [t]})
    return vio
