"""C08 - evaluation is pure and repeatable; all query APIs agree.

ES: every sequence of d operations (queries in all spellings, get_cells, get_sheet, and a few set_cells so that purity is also
checked from non-initial states) replayed on a fresh real Executor; after every transition the observable is compared with a
fresh executor carrying the same overrides, and the override map / sheet sizes are compared with the model.
"""
import copy
import itertools

from mc import driver as D

PROP = 'C08'
RULE = ('explicit-state exploration of the real Executor: ALL sequences of d operations (d=3 quick, 4 thorough) over the '
        'operation alphabet (get_cell in numeric / letters+row-text / lower-case letters / title-by-name / title-by-index / title-with-numbers spellings, the same Cell '
        'object reused, get_cells of pairs, get_sheet by index and by title, four set_cells, a second Executor over the same class overriding and querying in between); oracle: a fresh executor with '
        'the same overrides; invariants: override map = model, sheet sizes = used range extended by overrides, grid = '
        'last_row x last_column entries each equal to the single-cell query.  non-trivial = history with at least two '
        'queries, or a query after an override')
ASSUMPTIONS = ['a cell whose formula raises makes get_sheet raise the same exception type (the grid cannot hold a value for it)']

# K1/K2: two criteria that are equal as Python values (TRUE and 1) over a mixed range: a helper that keeps state between
# calls shows up as an answer that depends on which of the two was asked first.  The last sheet is titled with digits
# that are not its position.
BASE = [('S', {'A1': 10, 'B1': '=A1*2', 'C1': '=B1+A1', 'F1': '=H9+1', 'B2': 3, 'C2': '=SUM(A1:A2)', 'D2': '=A2&"|"', 'A4': 'x', 'AB2': 9,
               'E1': '=AB2+1', 'I1': True, 'I2': 1, 'I3': 0, 'I4': False, 'K1': '=COUNTIFS(I1:I4,TRUE)+10*SUMIF(I1:I4,0,J1:J4)',
               'K2': '=COUNTIFS(I1:I4,1)+10*SUMIF(I1:I4,FALSE,J1:J4)', 'J1': 1, 'J2': 2, 'J3': 4, 'J4': 8}),
        ('T 2', {'A1': 7, 'B1': '=S!A1+A1'}),
        ('E', {'A1': '=1/0', 'B1': '=A1+1', 'C3': 5}),
        ('1', {'A1': 42, 'B1': '=A1+1'})]
TIDX = {'S': 0, 'T 2': 1, 'E': 2, '1': 3}
BASE_SIZE = {0: (28, 4), 1: (2, 1), 2: (3, 3), 3: (2, 1)}  # (last_column, last_row) from the planted cells


def cn(letters):
    n = 0
    for ch in letters:
        n = n * 26 + ord(ch) - 64
    return n


def cl(n):
    s = ''
    while n:
        n, r = divmod(n - 1, 26)
        s = chr(65 + r) + s
    return s


def mk(addr, how):
    t, c, r = addr
    if how == 'num':
        return D.Cell(TIDX[t], cn(c) - 1, r - 1)
    if how == 'a1':
        return D.Cell(t, c, str(r))
    if how == 'idx_letters':
        return D.Cell(TIDX[t], c, str(r))
    if how == 'name_num':
        return D.Cell(t, cn(c) - 1, r - 1)
    if how == 'a1_lower':
        return D.Cell(t, c.lower(), str(r))      # column letters are not case-sensitive
    raise ValueError(how)


CELLS = {'A1': ('S', 'A', 1), 'C1': ('S', 'C', 1), 'F1': ('S', 'F', 1), 'A2': ('S', 'A', 2), 'D2': ('S', 'D', 2),
         'H9': ('S', 'H', 9), 'TB1': ('T 2', 'B', 1), 'K1': ('S', 'K', 1), 'K2': ('S', 'K', 2), 'NB1': ('1', 'B', 1), 'I2': ('S', 'I', 2), 'EA1': ('E', 'A', 1), 'EB1': ('E', 'B', 1), 'A3': ('S', 'A', 3), 'AB2': ('S', 'AB', 2), 'E1': ('S', 'E', 1)}


def _ops():
    ops = []
    hows = ['num', 'a1']
    for i, name in enumerate(CELLS):
        ops.append(('get_cell', name, hows[i % 2]))
    ops += [('get_cell', 'C1', 'num'), ('get_cell', 'TB1', 'idx_letters'), ('get_cell', 'H9', 'name_num'),
            ('get_cell', 'F1', 'a1'), ('get_cell', 'AB2', 'a1'), ('get_cell', 'AB2', 'idx_letters'),
            ('get_cell', 'TB1', 'name_num'), ('get_cell', 'C1', 'name_num'), ('get_cell', 'NB1', 'name_num')]
    ops += [('get_cell', 'C1', 'a1_lower'), ('get_cell', 'AB2', 'a1_lower')]
    ops += [('get_cell_reused', 'C1', 'a1'), ('get_cell_reused', 'TB1', 'a1')]
    ops += [('get_cells', ['C1', 'A1'], 'num'), ('get_cells', ['A1', 'C1'], 'a1'), ('get_cells', ['TB1', 'F1'], 'a1'),
            ('get_cells_same', ['C1'], 'a1')]
    ops += [('get_sheet', 0), ('get_sheet', 'S'), ('get_sheet', 'T 2'), ('get_sheet', 'E'), ('get_sheet', '1'), ('get_sheet', 3)]
    ops += [('other_executor', 'A1', 77, 'C1'), ('other_executor', 'I2', 0, 'K2')]
    ops += [('set_cells', [('A1', 5)]), ('set_cells', [(('S', 'J', 12), 1)]), ('set_cells', [('EA1', 2), ('A2', 4)]),
            ('set_cells', [('A1', 6), ('AB2', 0)]),
            # exactly one row below / one column right of the used range (J12 above lies several rows beyond it)
            ('set_cells', [(('S', 'B', 5), 3)]), ('set_cells', [(('T 2', 'C', 1), 4)]), ('set_cells', [('A2', 8)], 'a1_lower')]
    return ops


OPS = _ops()


# a covering sub-alphabet for the deepest level (one spelling per API, every hidden-state changing operation kept)
CORE = [i for i, o in enumerate(OPS) if o in (
    ('get_cell', 'A1', 'num'), ('get_cell', 'C1', 'a1'), ('get_cell', 'H9', 'a1'), ('get_cell', 'EA1', 'a1'),
    ('get_cell', 'TB1', 'idx_letters'), ('get_cell', 'AB2', 'a1'), ('get_cell_reused', 'C1', 'a1'), ('get_cells', ['C1', 'A1'], 'num'),
    ('get_cells_same', ['C1'], 'a1'), ('get_sheet', 0), ('get_sheet', 'T 2'), ('get_sheet', 'E'), ('get_sheet', '1'),
    ('get_cell', 'K1', 'a1'), ('get_cell', 'K2', 'num'), ('get_cell', 'TB1', 'name_num'), ('other_executor', 'A1', 77, 'C1'))
        or o[0] == 'set_cells']


def plan(tier, seed):
    n = len(OPS)
    phases = [{'name': 'histories-depth-4-all-ops' if tier == 'thorough' else 'histories-depth-3-all-ops',
               'cases': ({'ops': list(h)} for h in itertools.product(range(n), repeat=4 if tier == 'thorough' else 3)),
               'runner': 'run_histories', 'chunk': 1000}]
    d = 5 if tier == 'thorough' else 4
    phases.append({'name': f'histories-depth-{d}-core-ops',
                   'cases': ({'ops': list(h)} for h in itertools.product(CORE, repeat=d)),
                   'runner': 'run_histories', 'chunk': 1000})
    return phases


_CLS = None
_EXP = {}


def _cls():
    global _CLS
    if _CLS is None:
        k, text = D.translate(BASE)
        assert k == 'TEXT', (k, text)
        k, cls, _ = D.load_class(text)
        assert k == 'CLASS'
        _CLS = cls
    return _CLS


def _norm(out):
    k, v = out
    if k == 'VALUE':
        return ['VALUE', 'blank' if D.is_blank(v) else type(v).__name__, D.enc(v)]
    return [k]


def _mkey(model):
    return tuple(sorted((k, repr(v)) for k, v in model.items()))


def expected_value(model, addr, stats):
    """value of addr in a fresh executor with the model's overrides"""
    key = (_mkey(model), addr)
    if key not in _EXP:
        ex = D.new_executor(_cls())
        if model:
            ex.set_cells([D.Cell(TIDX[t], cn(c) - 1, r - 1, value=v) for (t, c, r), v in model.items()])
        _EXP[key] = _norm(D.eval_cell(ex, TIDX[addr[0]], cn(addr[1]) - 1, addr[2] - 1))
        stats['x:oracle_evaluations'] += 1
    return _EXP[key]


def expected_size(model, sheet_idx):
    c, r = BASE_SIZE[sheet_idx]
    for (t, col, row), _ in model.items():
        if TIDX[t] == sheet_idx:
            c, r = max(c, cn(col)), max(r, row)
    return c, r


def addr_of(x):
    return CELLS[x] if isinstance(x, str) else tuple(x)


def replay(history, stats):
    """returns first violation (clause, step, detail) or None"""
    ex = D.new_executor(_cls())
    inst = ex.get_executed_class()
    model = {}
    reused = {}
    other = {}
    for step, oi in enumerate(history):
        op = OPS[oi]
        kind = op[0]
        stats['transitions'] += 1
        if kind == 'other_executor':
            # a second Executor over the same class object: its override and its query are its own business
            if 'ex' not in other:
                other['ex'] = D.new_executor(_cls())
                other['model'] = {}
            a, q = CELLS[op[1]], CELLS[op[3]]
            other['ex'].set_cells([D.Cell(TIDX[a[0]], cn(a[1]) - 1, a[2] - 1, value=op[2])])
            other['model'][a] = op[2]
            got = _norm(D.eval_cell(other['ex'], TIDX[q[0]], cn(q[1]) - 1, q[2] - 1))
            exp = expected_value(other['model'], q, stats)
            stats['validated'] += 1
            if got != exp:
                return ('other_executor_value', step, {'cell': q, 'expected': exp, 'got': got})
        elif kind == 'set_cells':
            if len(op) > 2:
                batch = []
                for x, v in op[1]:
                    cell = mk(addr_of(x), op[2])
                    cell.value = v
                    batch.append(cell)
                ex.set_cells(batch)
            else:
                ex.set_cells([D.Cell(*[(TIDX[a[0]], cn(a[1]) - 1, a[2] - 1) for a in [addr_of(x)]][0], value=v) for x, v in op[1]])
            for x, v in op[1]:
                model[addr_of(x)] = v
        elif kind in ('get_cell', 'get_cell_reused'):
            a = CELLS[op[1]]
            if kind == 'get_cell_reused':
                cell = reused.setdefault(op[1], mk(a, op[2]))
            else:
                cell = mk(a, op[2])
            try:
                with D.time_limit(10):
                    got = ['VALUE', None, None]
                    r = ex.get_cell(cell)
                    got = _norm(('VALUE', r.value))
                    if r is not cell:
                        return ('returned_object', step, 'get_cell did not return the passed cell')
            except Exception as e:  # noqa
                got = ['EVAL_EXC:' + type(e).__name__]
            exp = expected_value(model, a, stats)
            stats['validated'] += 1
            if got != exp:
                return ('value', step, {'cell': a, 'expected': exp, 'got': got})
        elif kind in ('get_cells', 'get_cells_same'):
            if kind == 'get_cells_same':
                c0 = mk(CELLS[op[1][0]], op[2])
                cells, addrs = [c0, c0], [CELLS[op[1][0]]] * 2
            else:
                addrs = [CELLS[n] for n in op[1]]
                cells = [mk(a, op[2]) for a in addrs]
            try:
                res = ex.get_cells(cells)
                got = [_norm(('VALUE', c.value)) for c in res]
            except Exception as e:  # noqa
                got = ['EVAL_EXC:' + type(e).__name__]
            exp = [expected_value(model, a, stats) for a in addrs]
            raising = [e for e in exp if e[0] != 'VALUE']
            stats['validated'] += 1
            if raising:
                if got != [raising[0][0]]:
                    return ('value', step, {'cells': addrs, 'expected': raising[0], 'got': got})
            elif got != exp:
                return ('value', step, {'cells': addrs, 'expected': exp, 'got': got})
        elif kind == 'get_sheet':
            sidx = op[1] if isinstance(op[1], int) else TIDX[op[1]]
            title = [t for t, i in TIDX.items() if i == sidx][0]
            cols, rows = expected_size(model, sidx)
            exp_grid = [[expected_value(model, (title, cl(c + 1), r + 1), stats) for c in range(cols)] for r in range(rows)]
            raising = [e for row in exp_grid for e in row if e[0] != 'VALUE']
            try:
                grid = ex.get_sheet(op[1])
                got_exc = None
            except Exception as e:  # noqa
                got_exc = 'EVAL_EXC:' + type(e).__name__
            stats['validated'] += 1
            if raising:
                if got_exc != raising[0][0]:
                    return ('grid_value', step, {'expected': raising[0], 'got': got_exc or 'a grid'})
            else:
                if got_exc:
                    return ('grid_value', step, {'expected': 'a grid', 'got': got_exc})
                if len(grid) != rows or any(len(row) != cols for row in grid):
                    return ('grid_shape', step, {'expected': [rows, cols], 'got': [len(grid), sorted({len(r) for r in grid})]})
                for r in range(rows):
                    for c in range(cols):
                        cell = grid[r][c]
                        if (cell.title, cell.column, cell.row) != (sidx, c, r):
                            return ('grid_coord', step, {'expected': [sidx, c, r], 'got': [cell.title, cell.column, cell.row]})
                        g = _norm(('VALUE', cell.value))
                        if g != exp_grid[r][c]:
                            return ('grid_value', step, {'cell': [title, c, r], 'expected': exp_grid[r][c], 'got': g})
        # invariants on the hidden state after every transition
        sizes = [(s['last_column'], s['last_row']) for s in inst.get_sheets_size()]
        exp_sizes = [expected_size(model, i) for i in range(len(BASE))]
        if sizes != exp_sizes:
            return ('sizes', step, {'expected': exp_sizes, 'got': sizes})
        if kind not in ('set_cells', 'other_executor'):
            args = {k: repr(v) for k, v in inst._arguments.items()}
            exp_args = {f'_{TIDX[t]}_{cn(c) - 1}_{r - 1}': repr(v) for (t, c, r), v in model.items()}
            if args != exp_args:
                return ('overrides', step, {'expected': exp_args, 'got': args})
    return None


def run_histories(cases, stats):
    vio = []
    for i, c in enumerate(cases):
        h = c['ops']
        kinds = [OPS[o][0] for o in h]
        nq = sum(1 for k in kinds if k != 'set_cells')
        if nq >= 2 or ('set_cells' in kinds and kinds[-1] != 'set_cells'):
            stats['nontrivial'] += 1
        bad = replay(h, stats)
        stats['out:' + ('agree' if not bad else bad[0])] += 1
        if bad:
            clause, step, detail = bad
            desc = {'clause': clause, 'depth': step + 1, 'op': OPS[h[step]][0],
                    'after': sorted({OPS[o][0] for o in h[:step]}), 'outcome': 'INVARIANT:' + clause}
            vio.append({'i': i, 'desc': desc, 'expected': None,
                        'observed': {'history': [list(OPS[o]) for o in h], 'at_step': step, 'detail': detail}})
    return vio
