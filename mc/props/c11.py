"""C11 - aggregates fold exactly the numeric cells of their arguments.  BE over content vectors x shapes x splits."""
import datetime
import itertools

from mc import driver as D
from mc import sweep as S
from mc.ref import formula as R

PROP = 'C11'
RULE = ('complete product: all content vectors of length 1..4 (5 thorough) over {3, 2.5, -4, "x", "7", TRUE, FALSE, blank, "", '
        'date} planted (as overrides) into a row, a column, a 2x2 rectangle and another sheet, x argument forms {row area, '
        'column area, whole column, rectangle, every split of the column into two areas, the same area twice, single-cell '
        'arguments, area + numeric scalar} x {SUM, AVERAGE, MIN, MAX, COUNT} and COUNTBLANK on the single-area forms; AND / OR '
        'over all vectors of length 1..4 over {3, 0, -4, TRUE, FALSE} as an area, as single cells and as comparison '
        'expressions; vectors of length <= 2 also as workbook constants; differential split laws F(X,Y) vs F(X u Y) on the '
        'implementation\'s own results; non-trivial = vectors holding at least one non-numeric kind, or forms with a split, a '
        'repeated area or a scalar')
ASSUMPTIONS = ['a date cell is a numeric cell (its serial number), as in Excel', 'text / boolean scalar arguments and error-text cells '
               'are not enumerated', 'AND/OR are judged over numbers and booleans only (blank/text arguments: statement silent)',
               'empty fold: SUM 0, COUNT 0, MIN/MAX 0, AVERAGE any error']

DT = datetime.datetime
DATE = DT(2020, 1, 31)
SERIAL = (DATE - DT(1899, 12, 30)).days
KINDS = [3, 2.5, -4, 'x', '7', True, False, None, '', DATE, 0]
KNAME = ['int', 'float', 'neg', 'text', 'numtext', 'true', 'false', 'blank', 'emptytext', 'date', 'zero']
FUNCS = ['SUM', 'AVERAGE', 'MIN', 'MAX', 'COUNT']
MAXN = 5
RCOLS = 'ABCDE'


EXPR_FORMS = {}


def build():
    """Scaffold + per-length form table.  A form = (name, formula args text, [cell indices covered, with multiplicity], scalars)."""
    forms = {}
    for n in range(1, MAXN + 1):
        fs = []
        row = f'R!A1:{RCOLS[n - 1]}1'
        col = f'C!A1:A{n}'
        fs.append(('row', row, list(range(n)), []))
        fs.append(('column', col, list(range(n)), []))
        fs.append(('whole-column', 'C!A:A', list(range(MAXN)), []))  # rows n+1..5 are blank
        # whole columns A:B of sheet C: column A (the vector, rows n+1..5 blank) and column B (blank but for the 999 in B5);
        # index 99 stands for a blank cell of the area, the planted 999 counts like any numeric cell
        fs.append(('whole-columns-AB', 'C!A:B', list(range(MAXN)) + [99] * 4, [999]))
        fs.append(('quoted-sheet', "'O t'!A1:A%d" % n, list(range(n)), []))
        # a sheet whose used range ends in row 1: the cells of the area below it exist only as overrides
        fs.append(('short-sheet', 'U!A1:A%d' % n, list(range(n)), []))
        if n == 4:
            fs.append(('rectangle', "'2024'!A1:B2", [0, 1, 2, 3], []))
        for k in range(1, n):
            fs.append((f'split{k}+{n - k}', f'C!A1:A{k},C!A{k + 1}:A{n}', list(range(n)), []))
        if n >= 2:
            fs.append(('row+column-halves', f'R!A1:{RCOLS[0]}1,C!A2:A{n}', list(range(n)), []))
        fs.append(('twice', f'{col},{col}', list(range(n)) * 2, []))
        fs.append(('singles', ','.join(f'C!A{i + 1}' for i in range(n)), list(range(n)), []))
        fs.append(('area+scalar', f'{col},10', list(range(n)), [10]))
        fs.append(('scalar+area+scalar', f'0.5,{row},-1', list(range(n)), [0.5, -1]))
        forms[n] = fs
    cells = {}
    meta = {n: [] for n in forms}
    # arguments that are expressions over the first cell (counted by their value, not as references)
    EXPR = [('expr-compare', 'C!A1=3', lambda v: [bool(v == 3) if isinstance(v, (int, float)) and not isinstance(v, bool) else False]),
            ('expr-plus', 'C!A1+1', lambda v: [v + 1] if not isinstance(v, bool) and isinstance(v, (int, float)) else None),
            ('expr-bracket', '(C!A1)', lambda v: [v] if isinstance(v, (int, float, DT)) else None),
            ('expr-if', 'IF(TRUE,C!A1,0)', lambda v: [v] if isinstance(v, (int, float, DT)) else None), ('expr-neg', '-C!A1', lambda v: [-v] if not isinstance(v, bool) and isinstance(v, (int, float)) else None)]
    global EXPR_FORMS
    EXPR_FORMS = {name: fn for name, _, fn in EXPR}
    r = 1
    for n, fs in forms.items():
        for name, args, idx, scalars in fs:
            for j, fn in enumerate(FUNCS):
                addr = f'{"ABCDE"[j]}{r}'
                cells[addr] = f'={fn}({args})'
                meta[n].append((addr, fn, name, idx, scalars))
            if ',' not in args:
                cells[f'F{r}'] = f'=COUNTBLANK({args})'
                meta[n].append((f'F{r}', 'COUNTBLANK', name, idx, scalars))
            r += 1
    for n in forms:
        for name, arg, fn in EXPR:
            if fn is None:
                continue
            for j, f in enumerate(('COUNT', 'SUM', 'MAX')):
                addr = f'{"HIJ"[j]}{r}'
                cells[addr] = f'={f}({arg},C!A2:A{max(n, 2)})'
                meta[n].append((addr, f, name, list(range(1, n)), []))
            r += 1
    sheets = [('S', cells), ('R', {'F2': 999}), ('C', {'B5': 999}), ('2024', {'C3': 999}), ('O t', {'B5': 999}), ('U', {'D1': 999})]
    return sheets, meta


SCAFFOLD, META = build()
POS = {  # sheet -> list of addresses in vector order
    'R': [f'{c}1' for c in RCOLS], 'C': [f'A{i}' for i in range(1, 6)], 'O t': [f'A{i}' for i in range(1, 6)],
    'U': [f'A{i}' for i in range(1, 6)],
    '2024': ['A1', 'B1', 'A2', 'B2'],     # a sheet titled with digits that are not its position
}


def numeric(v):
    if isinstance(v, bool) or v is None or isinstance(v, str):
        return None
    if isinstance(v, DT):
        return (v - DT(1899, 12, 30)).days
    return v


def expected(fn, vals, scalars):
    nums = [numeric(v) for v in vals]
    nums = [x for x in nums if x is not None] + list(scalars)
    if fn == 'SUM':
        return sum(nums)
    if fn == 'COUNT':
        return len(nums)
    if fn == 'AVERAGE':
        return sum(nums) / len(nums) if nums else R.Err('ANY')
    if fn == 'MIN':
        return min(nums) if nums else 0
    if fn == 'MAX':
        return max(nums) if nums else 0
    if fn == 'COUNTBLANK':
        return sum(1 for v in vals if v is None or v == '')
    raise AssertionError(fn)


OTHER_FIRST = 100   # the sheet 'O t' holds this number at position 0: same corners as sheet C, other content


def overrides(vec):
    ov = []
    for sheet, addrs in POS.items():
        for k, (v, a) in enumerate(zip(vec, addrs)):
            if sheet == 'O t' and k == 0:
                v = OTHER_FIRST
            if v is not None:
                ov.append(((sheet, a), v))
    return ov


def judge(vec, entries, outs, src, stats, i, vio):
    kinds = sorted(set(KNAME[KINDS.index(v)] if not isinstance(v, DT) else 'date' for v in vec), key=KNAME.index)
    by = {}
    for (addr, fn, form, idx, scalars), o in zip(entries, outs):
        vals = [vec[j] if j < len(vec) else None for j in idx]
        if form == 'quoted-sheet':
            vals[0] = OTHER_FIRST
        if form in EXPR_FORMS:
            # the first argument is an expression over cell 0: it counts by its value (numbers; a comparison result is a
            # boolean, which COUNT counts and SUM / MAX - statement silent - are not judged on)
            ev = EXPR_FORMS[form](vec[0])
            if ev is None or (isinstance(ev[0], bool) and fn != 'COUNT'):
                stats['x:not_judged'] += 1
                continue
            if isinstance(ev[0], DT) and fn != 'COUNT':
                stats['x:not_judged'] += 1     # a date-valued scalar in SUM / MAX: the recorded date finding's territory
                continue
            scalars = list(scalars) + ([0] if fn == 'COUNT' else ev)   # a counted value / the number itself
        want = expected(fn, vals, scalars)
        stats['validated'] += 1
        stats['out:' + S.out_label(o)] += 1
        if any(numeric(v) is None for v in vals) or form not in ('row', 'column'):
            stats['nontrivial'] += 1
        ok, _ = R.same_value(want, o, tol=1e-12 if fn == 'AVERAGE' else 0.0)
        by[(fn, form)] = o
        if not ok:
            k, _ = o
            # does the observation equal the fold that leaves the date cells out?  (the one recorded defect; anything
            # else that goes wrong next to a date is still reported)
            alt = expected(fn, [None if isinstance(v, DT) else v for v in vals], scalars)
            date_ignored = any(isinstance(v, DT) for v in vals) and R.same_value(alt, o, tol=1e-12 if fn == 'AVERAGE' else 0.0)[0]
            vio.append({'i': i, 'desc': {'func': fn, 'form': form, 'kinds': kinds, 'src': src, 'n': len(vec),
                                         'date_ignored': bool(date_ignored),
                                         'outcome': 'VALUE_MISMATCH' if k == 'VALUE' else k},
                        'expected': repr(want) if isinstance(want, R.Err) else want, 'observed': S.obs(o)})
    # differential laws on the implementation's own results (no hand-written value)
    n = len(vec)
    for fn in FUNCS:
        base = by.get((fn, 'column'))
        if base is None or base[0] != 'VALUE':
            continue
        for form in [f'split{k}+{n - k}' for k in range(1, n)] + ['singles', 'row', 'whole-column', 'row+column-halves', 'short-sheet']:
            o = by.get((fn, form))
            if o is None:
                continue
            stats['x:split_laws'] += 1
            if not (o[0] == 'VALUE' and _eq(o[1], base[1])):
                vio.append({'i': i, 'desc': {'func': fn, 'form': form, 'kinds': kinds, 'src': src, 'n': n, 'law': 'split_invariance',
                                             'outcome': 'LAW'}, 'expected': S.obs(base), 'observed': S.obs(o)})
        tw = by.get(('SUM', 'twice')) if fn == 'SUM' else (by.get(('COUNT', 'twice')) if fn == 'COUNT' else None)
        if tw is not None and tw[0] == 'VALUE' and isinstance(base[1], (int, float)) and not _eq(tw[1], 2 * base[1]):
            vio.append({'i': i, 'desc': {'func': fn, 'form': 'twice', 'kinds': kinds, 'src': src, 'n': n, 'law': 'once_per_mention',
                                         'outcome': 'LAW'}, 'expected': 2 * base[1], 'observed': S.obs(tw)})


def _eq(a, b):
    if D.is_blank(a) or D.is_blank(b):
        return D.is_blank(a) and D.is_blank(b)
    if isinstance(a, (int, float)) and isinstance(b, (int, float)) and not isinstance(a, bool) and not isinstance(b, bool):
        return abs(a - b) <= 1e-12 * max(1, abs(a), abs(b))
    return a == b and type(a) is type(b)


def run_ov(cases, stats):
    cls = S.get_class(SCAFFOLD, stats=stats)
    vio = []
    for i, c in enumerate(cases):
        vec = [KINDS[j] for j in c['v']]
        entries = META[len(vec)]
        outs = S.run(cls, overrides(vec), [a for a, *_ in entries], stats)
        judge(vec, entries, outs, 'ov', stats, i, vio)
    return vio


def run_cell(cases, stats):
    """Vectors as workbook constants (empty text cannot be stored: such vectors are skipped here)."""
    vio = []
    for i, c in enumerate(cases):
        vec = [KINDS[j] for j in c['v']]
        if any(isinstance(v, str) and v == '' for v in vec):
            stats['x:not_storable'] += 1
            continue
        sheets = [(t, dict(cells)) for t, cells in SCAFFOLD]
        entries = META[len(vec)]
        keep = {a for a, *_ in entries}
        sheets[0] = ('S', {a: f for a, f in sheets[0][1].items() if a in keep})
        for (sheet, a), v in overrides(vec):
            for t, cells in sheets:
                if t == sheet:
                    cells[a] = v
        kind, cls = S.try_class(sheets, stats=stats)
        if kind != 'OK':
            vio.append({'i': i, 'desc': {'func': 'workbook', 'src': 'cell', 'outcome': 'SCAFFOLD'}, 'expected': 'translates', 'observed': cls})
            continue
        S._CACHE.clear()
        outs = S.run(cls, [], [a for a, *_ in entries], stats)
        judge(vec, entries, outs, 'cell', stats, i, vio)
    return vio


# ---------------------------------------------------------------------------------------------
# AND / OR

BKINDS = [3, 0, -4, True, False]


def build_bool():
    cells = {}
    meta = {}
    r = 1
    for n in range(1, 5):
        forms = [('area', f'C!A1:A{n}'), ('singles', ','.join(f'C!A{i + 1}' for i in range(n))),
                 ('expressions', ','.join(f'C!A{i + 1}<>0' for i in range(n))),
                 ('row-area', f'R!A1:{RCOLS[n - 1]}1'), ('mixed', ','.join(['C!A1'] + ([f'R!B1:{RCOLS[n - 1]}1'] if n > 1 else [])))]
        meta[n] = []
        for name, args in forms:
            cells[f'A{r}'] = f'=AND({args})'
            cells[f'B{r}'] = f'=OR({args})'
            cells[f'C{r}'] = f'=IF(AND({args}),1,2)'
            meta[n] += [(f'A{r}', 'AND', name), (f'B{r}', 'OR', name), (f'C{r}', 'IF-AND', name)]
            r += 1
    return [('S', cells), ('R', {'F2': 999}), ('C', {'B5': 999})], meta


BSCAFFOLD, BMETA = build_bool()


def run_bool(cases, stats):
    cls = S.get_class(BSCAFFOLD, stats=stats)
    vio = []
    for i, c in enumerate(cases):
        vec = [BKINDS[j] for j in c['v']]
        n = len(vec)
        ov = [(('C', f'A{k + 1}'), v) for k, v in enumerate(vec)] + [(('R', f'{RCOLS[k]}1'), v) for k, v in enumerate(vec)]
        outs = S.run(cls, ov, [a for a, *_ in BMETA[n]], stats)
        truths = [bool(v) for v in vec]
        for (addr, fn, form), o in zip(BMETA[n], outs):
            want = {'AND': all(truths), 'OR': any(truths), 'IF-AND': 1 if all(truths) else 2}[fn]
            stats['validated'] += 1
            stats['nontrivial'] += 1
            stats['out:' + S.out_label(o)] += 1
            k, v = o
            ok = k == 'VALUE' and ((v is want) if isinstance(want, bool) else (v == want and not isinstance(v, bool)))
            if not ok:
                vio.append({'i': i, 'desc': {'func': fn, 'form': form, 'n': n, 'kinds': sorted(set(type(x).__name__ for x in vec)),
                                             'outcome': 'VALUE_MISMATCH' if k == 'VALUE' else k}, 'expected': want, 'observed': S.obs(o)})
    return vio


def plan(tier, seed):
    L = 5 if tier == 'thorough' else 4

    def vecs(lo, hi, size=len(KINDS)):
        for n in range(lo, hi + 1):
            for v in itertools.product(range(size), repeat=n):
                yield {'v': list(v)}

    return [
        {'name': 'aggregates-override', 'cases': vecs(1, L), 'runner': 'run_ov', 'chunk': 250},
        {'name': 'aggregates-constant', 'cases': vecs(1, 2), 'runner': 'run_cell', 'chunk': 4},
        {'name': 'and-or-override', 'cases': vecs(1, 4, len(BKINDS)), 'runner': 'run_bool', 'chunk': 100},
    ]
