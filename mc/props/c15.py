"""C15 - date functions follow the Gregorian calendar.  BE over (y,m,d) boxes, day pairs, month offsets, holiday subsets;
EE over a menu of clock answers for TODAY."""
import calendar
import datetime
import itertools

from mc import driver as D
from mc import sweep as S

PROP = 'C15'
RULE = ('complete products: DATE over years {1900,1999,2000,2023,2024,2100,99,9999} x months -30..40 x days -70..100 '
        '(thorough -400..420) with YEAR/MONTH/DAY of the result, as overrides; the boundary box (months -13..14 x days -2..33, '
        'thorough -32..63) as workbook constants and as literals (quick literals: days -2..2 and 28..33); EDATE/EOMONTH for every day of 2019..2024 (quick: every 3rd '
        'day + all month ends) x offsets -60..60 and +-1.9; DATEDIF D/M/Y/YM for all ordered day pairs a<=b of 2019..2024 '
        '(quick: every 5th day + month ends + leap days); NETWORKDAYS for all ordered pairs of a 10-week window x all 16 '
        'subsets of four holidays (weekday, weekend day, duplicate, outside) with and without the holiday range; TODAY under a '
        'menu of injected clock answers; non-trivial = cases where month/day normalisation, clamping, a borrow or a '
        'holiday/weekend actually changes the result')
ASSUMPTIONS = ['DATE results outside 1900-01-01..9999-12-31 are explored, not judged (the statement does not fix them)',
               'two-digit/low years 0..1899 mean 1900+y (Excel)', 'DATEDIF is judged for start <= end only',
               'TODAY is checked against the injected clock (datetime module of the generated namespace), not the OS clock',
               'fractional month offsets are truncated toward zero (documented Excel behaviour)']

DT = datetime.datetime
DAY = datetime.timedelta(days=1)
YEARS = [1900, 1999, 2000, 2023, 2024, 2100, 99, 9999]

SCAFFOLD = [('S', {
    'A1': 2020, 'B1': 1, 'C1': 1,
    'D1': '=DATE(A1,B1,C1)', 'E1': '=YEAR(D1)', 'F1': '=MONTH(D1)', 'G1': '=DAY(D1)',
    'E2': '=YEAR(DATE(A1,B1,C1))', 'F2': '=MONTH(DATE(A1,B1,C1))', 'G2': '=DAY(DATE(A1,B1,C1))',
    'H1': DT(2020, 1, 31), 'I1': 1, 'J1': '=EDATE(H1,I1)', 'K1': '=EOMONTH(H1,I1)',
    'M1': DT(2020, 3, 15),
    'L1': '=DATEDIF(H1,M1,"D")', 'L2': '=DATEDIF(H1,M1,"M")', 'L3': '=DATEDIF(H1,M1,"Y")', 'L4': '=DATEDIF(H1,M1,"YM")',
    'N1': '=NETWORKDAYS(H1,M1)', 'N2': '=NETWORKDAYS(H1,M1,P1:P4)', 'Q5': 1, 'N3': '=NETWORKDAYS(H1,M1,Hol!A:A)',
    'K3': '=EOMONTH(T1,I1)', 'T1': DT(2020, 1, 31, 13, 45),
    'R1': '=YEAR(H1)', 'R2': '=MONTH(H1)', 'R3': '=DAY(H1)',
    # arguments that are expressions / bracketed / read through a formula cell
    'S1': '=H1', 'J2': '=EDATE(S1,I1+0)', 'K2': '=EOMONTH((H1),(I1))', 'D2': '=DATE(A1+0,(B1),C1*1)',
}), ('Hol', {'A%d' % r: DT(1990, 1, r) for r in range(1, 5)})]   # the holidays of N3 live in Hol!A1:A4 (overridden from row 1 down; the
# planted dates are far from every interval): the used range of that sheet ends in the last holiday row


# ---------------------------------------------------------------------------------------------
# reference arithmetic (datetime / calendar only)

def ref_date(y, m, d):
    """1 January of year y + (m-1) months + (d-1) days; None when outside the judged window."""
    if 0 <= y <= 1899:
        y += 1900
    yy, mm = divmod(y * 12 + (m - 1), 12)
    if not (1 <= yy <= 9999):
        return None
    try:
        r = datetime.date(yy, mm + 1, 1) + datetime.timedelta(days=d - 1)
    except OverflowError:
        return None
    if r < datetime.date(1900, 1, 1):
        return None
    return DT(r.year, r.month, r.day)


def add_months(d: datetime.datetime, k: int):
    yy, mm = divmod(d.year * 12 + d.month - 1 + k, 12)
    last = calendar.monthrange(yy, mm + 1)[1]
    return yy, mm + 1, last


def ref_edate(d, k):
    k = int(k)  # toward zero
    yy, mm, last = add_months(d, k)
    return DT(yy, mm, min(d.day, last))


def ref_eomonth(d, k):
    yy, mm, last = add_months(d, int(k))
    return DT(yy, mm, last)


def ref_months(a, b):
    return 12 * (b.year - a.year) + (b.month - a.month) - (1 if b.day < a.day else 0)


def ref_datedif(a, b, unit):
    if unit == 'D':
        return (b - a).days
    m = ref_months(a, b)
    return {'M': m, 'Y': m // 12, 'YM': m % 12}[unit]


def ref_networkdays(a, b, holidays):
    lo, hi = (a, b) if a <= b else (b, a)
    n = 0
    hs = {h.date() for h in holidays}
    d = lo.date()
    while d <= hi.date():
        if d.weekday() < 5 and d not in hs:
            n += 1
        d += DAY
    return n if a <= b else -n


# ---------------------------------------------------------------------------------------------
# plan

def days_of(y0, y1):
    d = DT(y0, 1, 1)
    while d.year <= y1:
        yield d
        d += DAY


def iso(d):
    return d.strftime('%Y-%m-%d')


def undo(s):
    return DT.strptime(s, '%Y-%m-%d')


def plan(tier, seed):
    th = tier == 'thorough'
    dlo, dhi = (-400, 420) if th else (-70, 100)
    blo, bhi = (-32, 63) if th else (-2, 33)

    def date_cases():
        for y in YEARS:
            for m in range(-30, 41):
                yield {'y': y, 'm': m, 'd': [dlo, dhi]}

    def date_box(lit=False):
        for y in YEARS:
            for m in range(-13, 15):
                for d in range(blo, bhi + 1):
                    if lit and not th and 2 < d < 28:
                        continue
                    yield {'y': y, 'm': m, 'd': d}

    all_days = list(days_of(2019, 2024))
    if th:
        edays = all_days
        pdays = all_days
    else:
        ends = [d for d in all_days if (d + DAY).day == 1 or d.day == 1 or (d.month == 2 and d.day >= 28)]
        edays = sorted(set(all_days[::3]) | set(ends))
        pdays = sorted(set(all_days[::5]) | set(ends))

    def edate_cases():
        for d in edays:
            yield {'d': iso(d)}

    def edate_sub():
        for d in edays:
            if (d + DAY).day == 1 or d.day in (1, 29, 30):
                for k in (-13, -12, -1, 0, 1, 2, 11, 12, 13, 24):
                    yield {'d': iso(d), 'k': k}

    def datedif_cases():
        for i, a in enumerate(pdays):
            yield {'a': iso(a), 'from': i}

    def datedif_sub():
        keys = [d for d in pdays if (d + DAY).day == 1 or d.day == 1 or (d.month == 2 and d.day >= 28) or d.day == 15]
        keys = keys[::3] if not th else keys
        for a, b in itertools.combinations_with_replacement(keys, 2):
            yield {'a': iso(a), 'b': iso(b)}

    win0 = DT(2024, 2, 5)  # a Monday; the window holds 29 Feb 2024
    window = [win0 + DAY * i for i in range(70)]

    def nwd_cases():
        for a in window:
            yield {'a': iso(a)}

    def nwd_sub():
        for a in window[::7] + window[5::7] + window[6::7]:
            for b in window[::9]:
                yield {'a': iso(a), 'b': iso(b)}

    return [
        {'name': 'date-override', 'cases': date_cases(), 'runner': 'run_date_ov', 'chunk': 8},
        {'name': 'date-literal', 'cases': date_box(True), 'runner': 'run_date_lit', 'chunk': 150},
        {'name': 'date-constant', 'cases': date_box(), 'runner': 'run_date_cell', 'chunk': 150},
        {'name': 'edate-eomonth-override', 'cases': edate_cases(), 'runner': 'run_edate_ov', 'chunk': 16},
        {'name': 'edate-eomonth-constant', 'cases': edate_sub(), 'runner': 'run_edate_cell', 'chunk': 150},
        {'name': 'datedif-override', 'cases': datedif_cases(), 'runner': 'run_datedif_th' if th else 'run_datedif_q',
         'chunk': 4},
        {'name': 'datedif-constant', 'cases': datedif_sub(), 'runner': 'run_datedif_cell', 'chunk': 150},
        {'name': 'networkdays-override', 'cases': nwd_cases(), 'runner': 'run_nwd_ov', 'chunk': 2},
        {'name': 'networkdays-constant', 'cases': nwd_sub(), 'runner': 'run_nwd_cell', 'chunk': 100},
        {'name': 'today-clock-menu', 'cases': iter(CLOCK_MENU), 'runner': 'run_today', 'chunk': 4},
    ]


# ---------------------------------------------------------------------------------------------
# judging helpers

def is_dt(v, want):
    return isinstance(v, datetime.datetime) and v == want


def is_num(v, want):
    return not isinstance(v, bool) and isinstance(v, (int, float)) and not D.is_blank(v) and v == want


def _v(vio, i, desc, o, exp):
    k, _ = o
    desc['outcome'] = 'VALUE_MISMATCH' if k == 'VALUE' else k
    vio.append({'i': i, 'desc': desc, 'expected': D.enc(exp), 'observed': S.obs(o)})


def month_class(m):
    return 'in_year' if 1 <= m <= 12 else ('zero' if m == 0 else ('neg' if m < 0 else 'over'))


def day_class(d, last):
    return 'in_month' if 1 <= d <= last else ('zero' if d == 0 else ('neg' if d < 0 else 'over'))


def judge_date(y, m, d, outs, src, stats, i, vio):
    """outs: dict with 'date','year','month','day' (+ optional nested 'year2','month2','day2')."""
    want = ref_date(y, m, d)
    stats['out:' + S.out_label(outs['date'])] += 1
    if want is None:
        stats['x:not_judged'] += 1
        return
    stats['validated'] += 1
    yy = y + 1900 if 0 <= y <= 1899 else y
    last = calendar.monthrange(*divmod(yy * 12 + m - 1, 12))[1] if False else None
    base_y, base_m = divmod(yy * 12 + (m - 1), 12)
    last = calendar.monthrange(base_y, base_m + 1)[1]
    mc, dc = month_class(m), day_class(d, last)
    if mc != 'in_year' or dc != 'in_month':
        stats['nontrivial'] += 1
    desc = {'func': 'DATE', 'month_class': mc, 'day_sign': dc, 'src': src, 'year_class': 'low' if y < 1900 else 'plain'}
    k, v = outs['date']
    if not (k == 'VALUE' and is_dt(v, want)):
        _v(vio, i, dict(desc), outs['date'], want)
        return
    for part, w in (('year', want.year), ('month', want.month), ('day', want.day)):
        for key in (part, part + '2'):
            if key in outs:
                k, v = outs[key]
                if not (k == 'VALUE' and is_num(v, w)):
                    _v(vio, i, dict(desc, func=part.upper(), nested=key.endswith('2')), outs[key], w)


# ---------------------------------------------------------------------------------------------
# runners: DATE

def run_date_ov(cases, stats):
    cls = S.get_class(SCAFFOLD, stats=stats)
    vio = []
    for i, c in enumerate(cases):
        y, m = c['y'], c['m']
        for d in range(c['d'][0], c['d'][1] + 1):
            o = S.run(cls, [('A1', y), ('B1', m), ('C1', d)], ['D1', 'E1', 'F1', 'G1', 'E2', 'F2', 'G2', 'D2'], stats)
            judge_date(y, m, d, {'date': o[7]}, 'ov-expression-arguments', stats, i, vio)
            o = o[:7]
            stats['x:date_triples'] += 1
            stats['cases'] += 1
            judge_date(y, m, d, dict(zip(['date', 'year', 'month', 'day', 'year2', 'month2', 'day2'], o)), 'ov', stats, i, vio)
    return vio


def _date_items(cases, literal):
    items = []
    for c in cases:
        if literal:
            call = f'DATE({c["y"]},{c["m"]},{c["d"]})'
            # nested YEAR/MONTH/DAY(DATE(..)) forms are rotated (parsing nested calls is slow: ~20 ms each)
            part = ('YEAR', 'MONTH', 'DAY')[(c['m'] + c['d']) % 3]
            items.append({'f': {'D@0': '=' + call, 'EFG'[(c['m'] + c['d']) % 3] + '@0': f'={part}({call})'}})
        else:
            items.append({'f': {'D@0': '=DATE(A@0,B@0,C@0)', 'E@0': '=YEAR(D@0)', 'F@0': '=MONTH(D@0)', 'G@0': '=DAY(D@0)'},
                          'cells': {'A@0': c['y'], 'B@0': c['m'], 'C@0': c['d']}})
    return items


def _run_date_items(cases, stats, literal):
    raw = D.eval_items(_date_items(cases, literal), stats=stats)
    vio = []
    for i, (c, r) in enumerate(zip(cases, raw)):
        outs = {'date': r['D@0']}
        for key, col in (('year', 'E@0'), ('month', 'F@0'), ('day', 'G@0')):
            if col in r:
                outs[key] = r[col]
        judge_date(c['y'], c['m'], c['d'], outs, 'lit' if literal else 'cell', stats, i, vio)
    return vio


def run_date_lit(cases, stats):
    return _run_date_items(cases, stats, True)


def run_date_cell(cases, stats):
    return _run_date_items(cases, stats, False)


# ---------------------------------------------------------------------------------------------
# runners: EDATE / EOMONTH

OFFSETS = list(range(-60, 61)) + [-1.9, 1.9, 0.5, -0.5]


def judge_edate(d, k, oe, om, src, stats, i, vio, parts=None):
    we, wm = ref_edate(d, k), ref_eomonth(d, k)
    stats['validated'] += 2
    stats['out:' + S.out_label(oe)] += 1
    clamped = we.day != d.day
    if clamped or k != int(k):
        stats['nontrivial'] += 1
    desc = {'src': src, 'clamped': clamped, 'offset_sign': 'neg' if k < 0 else ('zero' if k == 0 else 'pos'),
            'fractional': k != int(k), 'month_end_start': (d + DAY).day == 1}
    if not (oe[0] == 'VALUE' and is_dt(oe[1], we)):
        _v(vio, i, dict(desc, func='EDATE'), oe, we)
    if not (om[0] == 'VALUE' and is_dt(om[1], wm)):
        _v(vio, i, dict(desc, func='EOMONTH'), om, wm)
    if parts:
        for name, o, w in zip(('YEAR', 'MONTH', 'DAY'), parts, (d.year, d.month, d.day)):
            stats['validated'] += 1
            if not (o[0] == 'VALUE' and is_num(o[1], w)):
                _v(vio, i, {'func': name, 'src': src, 'of': 'date-cell'}, o, w)


def run_edate_ov(cases, stats):
    cls = S.get_class(SCAFFOLD, stats=stats)
    vio = []
    for i, c in enumerate(cases):
        d = undo(c['d'])
        for k in OFFSETS:
            if k in (-13, -1, 0, 1, 13):
                # a start value with a time of day: the last day of the month is still a day (midnight)
                tt = d.replace(hour=13, minute=45)
                oo, = S.run(cls, [('T1', tt), ('I1', k)], ['K3'], stats)
                stats['validated'] += 1
                if not (oo[0] == 'VALUE' and is_dt(oo[1], ref_eomonth(d, k))):
                    _v(vio, i, {'func': 'EOMONTH', 'src': 'ov', 'start': 'date-time with a time of day'}, oo, ref_eomonth(d, k))
            o = S.run(cls, [('H1', d), ('I1', k)], ['J1', 'K1', 'R1', 'R2', 'R3', 'J2', 'K2'], stats)
            judge_edate(d, k, o[5], o[6], 'ov-expression-arguments', stats, i, vio)
            o = o[:5]
            stats['x:edate_pairs'] += 1
            stats['cases'] += 1
            judge_edate(d, k, o[0], o[1], 'ov', stats, i, vio, o[2:])
    return vio


def run_edate_cell(cases, stats):
    items = [{'f': {'J@0': '=EDATE(H@0,I@0)', 'K@0': f'=EOMONTH(H@0,{c["k"]})'}, 'cells': {'H@0': undo(c['d']), 'I@0': c['k']}}
             for c in cases]
    raw = D.eval_items(items, stats=stats)
    vio = []
    for i, (c, r) in enumerate(zip(cases, raw)):
        judge_edate(undo(c['d']), c['k'], r['J@0'], r['K@0'], 'cell', stats, i, vio)
    return vio


# ---------------------------------------------------------------------------------------------
# runners: DATEDIF

UNITS = ['D', 'M', 'Y', 'YM']
UADDR = ['L1', 'L2', 'L3', 'L4']


def judge_datedif(a, b, outs, src, stats, i, vio):
    borrow_d = b.day < a.day
    borrow_m = (b.month, b.day) < (a.month, a.day)
    if borrow_d or borrow_m:
        stats['nontrivial'] += 1
    for u, o in zip(UNITS, outs):
        w = ref_datedif(a, b, u)
        stats['validated'] += 1
        if not (o[0] == 'VALUE' and is_num(o[1], w)):
            _v(vio, i, {'func': 'DATEDIF', 'unit': u, 'src': src, 'day_borrow': borrow_d, 'year_borrow': borrow_m,
                        'leap_start': calendar.isleap(a.year), 'same_day': a == b}, o, w)
    stats['out:' + S.out_label(outs[0])] += 1


def _quick_days():
    all_days = list(days_of(2019, 2024))
    ends = [d for d in all_days if (d + DAY).day == 1 or d.day == 1 or (d.month == 2 and d.day >= 28)]
    return sorted(set(all_days[::5]) | set(ends))


_DAYS = {}


def _run_datedif(cases, stats, days_key):
    if days_key not in _DAYS:
        _DAYS[days_key] = list(days_of(2019, 2024)) if days_key == 'th' else _quick_days()
    days = _DAYS[days_key]
    cls = S.get_class(SCAFFOLD, stats=stats)
    vio = []
    ex = D.new_executor(cls)
    for i, c in enumerate(cases):
        a = undo(c['a'])
        assert days[c['from']] == a
        for b in days[c['from']:]:
            # one executor, overrides replaced in place (last write wins is C04's business; here it only saves time,
            # and every 64th pair is re-evaluated on a fresh executor to keep the two paths honest)
            ex.set_cells([D.Cell('S', 'H', '1', value=a), D.Cell('S', 'M', '1', value=b)])
            outs = [D.eval_cell(ex, 'S', 'L', r) for r in '1234']
            stats['evaluations'] += 4
            stats['transitions'] += 4
            stats['x:datedif_pairs'] += 1
            stats['cases'] += 1
            judge_datedif(a, b, outs, 'ov', stats, i, vio)
            if stats['x:datedif_pairs'] % 64 == 0:
                fresh = S.run(cls, [('H1', a), ('M1', b)], UADDR, stats)
                if [S.obs(x) for x in fresh] != [S.obs(x) for x in outs]:
                    vio.append({'i': i, 'desc': {'func': 'DATEDIF', 'src': 'ov', 'outcome': 'REUSED_EXECUTOR_DIFFERS'},
                                'expected': [S.obs(x) for x in fresh], 'observed': [S.obs(x) for x in outs]})
    return vio


def run_datedif_q(cases, stats):
    return _run_datedif(cases, stats, 'q')


def run_datedif_th(cases, stats):
    return _run_datedif(cases, stats, 'th')


def run_datedif_cell(cases, stats):
    items = [{'f': {f'L@{j}': f'=DATEDIF(H@0,M@0,"{u}")' for j, u in enumerate(UNITS)},
              'cells': {'H@0': undo(c['a']), 'M@0': undo(c['b'])}, 'h': 4} for c in cases]
    raw = D.eval_items(items, stats=stats)
    vio = []
    for i, (c, r) in enumerate(zip(cases, raw)):
        judge_datedif(undo(c['a']), undo(c['b']), [r[f'L@{j}'] for j in range(4)], 'cell', stats, i, vio)
    return vio


# ---------------------------------------------------------------------------------------------
# runners: NETWORKDAYS

WIN0 = DT(2024, 2, 5)
HOLS = [DT(2024, 2, 14), DT(2024, 3, 2), DT(2024, 2, 14), DT(2023, 12, 25)]  # weekday, Saturday, duplicate, outside
HOLS2 = [DT(2024, 2, 29), DT(2024, 3, 29), DT(2024, 4, 1), DT(2024, 2, 5)]  # leap day, Friday, Monday, window start
HADDR = ['P1', 'P2', 'P3', 'P4']


def judge_nwd(a, b, hs, o_plain, o_h, src, stats, i, vio):
    w0, w1 = ref_networkdays(a, b, []), ref_networkdays(a, b, hs)
    stats['validated'] += 2
    if w0 != w1 or a > b:
        stats['nontrivial'] += 1
    desc = {'func': 'NETWORKDAYS', 'src': src, 'reversed': a > b, 'n_holidays': len(hs), 'holiday_hits': w0 != w1,
            'starts_weekend': a.weekday() >= 5, 'ends_weekend': b.weekday() >= 5}
    if o_plain is not None and not (o_plain[0] == 'VALUE' and is_num(o_plain[1], w0)):
        _v(vio, i, dict(desc, form='2args'), o_plain, w0)
    if not (o_h[0] == 'VALUE' and is_num(o_h[1], w1)):
        _v(vio, i, dict(desc, form='3args'), o_h, w1)
    stats['out:' + S.out_label(o_h)] += 1


def run_nwd_ov(cases, stats):
    cls = S.get_class(SCAFFOLD, stats=stats)
    vio = []
    window = [WIN0 + DAY * k for k in range(70)]
    for i, c in enumerate(cases):
        a = undo(c['a'])
        for b in window:
            for hset in (HOLS, HOLS2):
                for mask in range(16):
                    if hset is HOLS2 and mask == 0:
                        continue
                    hs = [(HADDR[j], hset[j]) for j in range(4) if mask >> j & 1]
                    whole = [(('Hol', 'A%d' % (j + 1)), h) for j, (_, h) in enumerate(hs)]   # packed from row 1 down
                    o = S.run(cls, [('H1', a), ('M1', b)] + hs + whole, ['N1', 'N2', 'N3'], stats)
                    stats['x:networkdays_cases'] += 1
                    stats['cases'] += 1
                    judge_nwd(a, b, [h for _, h in hs], o[0], o[1], 'ov', stats, i, vio)
                    judge_nwd(a, b, [h for _, h in hs], None, o[2], 'ov-whole-column-holidays', stats, i, vio)
    return vio


def run_nwd_cell(cases, stats):
    items = []
    for c in cases:
        cells = {'H@0': undo(c['a']), 'M@0': undo(c['b']), 'P@0': HOLS[0], 'P@1': HOLS[1], 'P@3': HOLS2[1]}
        items.append({'f': {'N@0': '=NETWORKDAYS(H@0,M@0)', 'N@1': '=NETWORKDAYS(H@0,M@0,P@0:P@3)'}, 'cells': cells, 'h': 4})
    raw = D.eval_items(items, stats=stats)
    vio = []
    for i, (c, r) in enumerate(zip(cases, raw)):
        judge_nwd(undo(c['a']), undo(c['b']), [HOLS[0], HOLS[1], HOLS2[1]], r['N@0'], r['N@1'], 'cell', stats, i, vio)
    return vio


# ---------------------------------------------------------------------------------------------
# TODAY: environment-answer enumeration

# (local instant, utc offset in hours): the local date is the answer; utc / naive variants differ on purpose
CLOCK_MENU = [
    {'local': '2024-05-17T13:45:10', 'utc_off': 3},
    {'local': '2023-12-31T23:59:59', 'utc_off': 3},
    {'local': '2024-01-01T00:00:00', 'utc_off': 3},
    {'local': '2024-01-01T00:00:00', 'utc_off': -8},
    {'local': '2023-12-31T23:59:59', 'utc_off': -8},
    {'local': '2024-02-29T08:00:00', 'utc_off': 0},
    {'local': '2024-03-31T02:30:00', 'utc_off': 1},
    {'local': '2024-10-27T02:30:00', 'utc_off': 2},
    {'local': '2100-03-01T00:00:01', 'utc_off': 12},
    {'local': '1999-12-31T12:00:00', 'utc_off': -11},
]

TODAY_SCAFFOLD = [('S', {'A1': '=TODAY()', 'B1': '=YEAR(TODAY())', 'C1': '=MONTH(TODAY())', 'D1': '=DAY(TODAY())',
                         'E1': '=TODAY()=TODAY()', 'F1': '=A1', 'G1': '=DATEDIF(DATE(1999,1,1),TODAY(),"D")'})]


def make_clock(local: datetime.datetime, utc_off: int):
    """A stand-in for the datetime module whose clock answers are fixed."""
    import types

    class _Meta(type):
        def __instancecheck__(cls, obj):
            return isinstance(obj, cls.__mro__[1])

    class FakeDate(datetime.date, metaclass=_Meta):
        @classmethod
        def today(cls):
            return datetime.date(local.year, local.month, local.day)

    class FakeDateTime(datetime.datetime, metaclass=_Meta):
        @classmethod
        def now(cls, tz=None):
            if tz is not None:
                return (local - datetime.timedelta(hours=utc_off)).replace(tzinfo=datetime.timezone.utc).astimezone(tz)
            return local

        @classmethod
        def today(cls):
            return local

        @classmethod
        def utcnow(cls):
            return local - datetime.timedelta(hours=utc_off)

    shim = types.ModuleType('datetime')
    for name in dir(datetime):
        if not name.startswith('__'):
            setattr(shim, name, getattr(datetime, name))
    shim.date = FakeDate
    shim.datetime = FakeDateTime
    return shim


def run_today(cases, stats):
    kind, text = D.translate(TODAY_SCAFFOLD)
    assert kind == 'TEXT', (kind, text)
    stats['transitions'] += 1
    vio = []
    for i, c in enumerate(cases):
        local = DT.fromisoformat(c['local'])
        k2, cls, ns = D.load_class(text)
        assert k2 == 'CLASS', (k2, cls)
        ns['datetime'] = make_clock(local, c['utc_off'])
        want = DT(local.year, local.month, local.day)
        o = S.run(cls, [], ['A1', 'B1', 'C1', 'D1', 'E1', 'F1', 'G1'], stats)
        stats['validated'] += 7
        stats['nontrivial'] += 1
        stats['out:' + S.out_label(o[0])] += 1
        desc = {'func': 'TODAY', 'clock': c['local'], 'utc_off': c['utc_off']}
        for key in (0, 5):
            k, v = o[key]
            if not (k == 'VALUE' and isinstance(v, datetime.datetime) and v == want and v.tzinfo is None):
                _v(vio, i, dict(desc, form='TODAY()' if key == 0 else 'via-cell'), o[key], want)
        for key, w, name in ((1, want.year, 'YEAR'), (2, want.month, 'MONTH'), (3, want.day, 'DAY'),
                             (6, (want - DT(1999, 1, 1)).days, 'DATEDIF')):
            k, v = o[key]
            if not (k == 'VALUE' and is_num(v, w)):
                _v(vio, i, dict(desc, form=name + '(TODAY())'), o[key], w)
        k, v = o[4]
        if not (k == 'VALUE' and v is True):
            _v(vio, i, dict(desc, form='TODAY()=TODAY()'), o[4], True)
    return vio
