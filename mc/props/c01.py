"""C01 - formula operators keep their Excel meaning.  BE over operator skeletons x operand vectors x sources."""
import itertools

from mc import driver as D
from mc.ref import formula as R

PROP = 'C01'
RULE = ('complete enumeration of operator skeletons: all chains of 2 binary operators over the 11 operators with sign/% '
        'decorations and both bracketings (L2), chains of 3 (L3) and 4 (L4) operators, unary/percent stacks, sign after every '
        'binary operator, and every decimal literal spelling i.f up to the digit bound; each skeleton is evaluated under '
        'several operand vectors (numbers, negative/fractional numbers, text, blank, TRUE) supplied as overrides, workbook '
        'constants and literals, and compared with the independent precedence-climbing evaluator.  non-trivial = distinct '
        'skeleton x vector whose reference value differs under at least one other grouping of the same operators, or a '
        'literal whose nearest double differs from the naive int+fraction sum')
ASSUMPTIONS = ['reference evaluator mc/ref/formula.py is the oracle (IEEE double arithmetic, text forms of appendix A.7)',
               'comparisons between different kinds (text vs number, boolean vs number) and numeric-looking text in '
               'arithmetic are explored but not judged',
               'chains containing % are compared with relative tolerance 1e-14 (statement: 15 significant digits)']

OPS11 = ['+', '-', '*', '/', '&', '=', '<>', '<', '<=', '>', '>=']
OPS7 = ['+', '-', '*', '/', '&', '=', '<']
NAMES = ['A', 'B', 'C', 'D', 'E']

# operand vectors (values for A,B,C,D,E); None = blank
VECTORS = {
    'n1': [7, 2, 5, 3, 11],
    'n2': [0.5, -1.5, 4, 10, 2],
    't3': [7, 2, '72', '5', 'x'],
    't1': ['72', 7, 2, 'x', 3],
    'bl': [None, 3, 5, None, 2],
    'b2': [6, None, 5, 2, None],
    'tr': [True, 2, 3, True, 1],
    'tx': [3, 'x', 2, 5, 'y'],
    'z0': [0, 2, False, 0.0, 3],
}
QUICK_VEC = ['n1', 'n2', 't3', 'tr', 'z0']
# override mode: the workbook holds these other constants, so an override that is lost or ignored changes the value;
# a blank operand cannot be expressed by an override and is covered by the workbook-constant source
PLANTED = [101, 102, 103, 104, 105]


def skel_text(sk, names):
    """sk: {'ops': [...], 'signs': [...], 'pcts': [...], 'br': spec}  names: operand texts."""
    n = len(sk['ops']) + 1
    opnd = [sk['signs'][i] + names[i] + sk['pcts'][i] for i in range(n)]
    parts = []
    br = sk.get('br') or []  # list of (start operand idx, end operand idx) bracket pairs
    for i in range(n):
        s = opnd[i]
        s = '(' * sum(1 for b in br if b[0] == i) + s + ')' * sum(1 for b in br if b[1] == i)
        for b in br:
            if b[1] == i and len(b) > 2:
                s += b[2]  # postfix after the bracket, e.g. '%'
        parts.append(s)
        if i < n - 1:
            parts.append(sk['ops'][i])
    return '=' + ''.join(parts)


def gen_L2(ops):
    for o1, o2 in itertools.product(ops, repeat=2):
        for signs in itertools.product(['', '-'], repeat=3):
            for pcts in itertools.product(['', '%'], repeat=3):
                for br in ([], [(0, 1)], [(1, 2)]):
                    yield {'lvl': 'L2', 'ops': [o1, o2], 'signs': list(signs), 'pcts': list(pcts), 'br': [list(b) for b in br]}


BR3 = [[], [(0, 1)], [(1, 2)], [(2, 3)], [(0, 2)], [(1, 3)], [(0, 1), (2, 3)]]


def gen_L3(ops):
    for o in itertools.product(ops, repeat=3):
        for s0 in ('', '-'):
            for pp in range(5):
                pcts = ['', '', '', '']
                if pp:
                    pcts[pp - 1] = '%'
                for br in BR3:
                    yield {'lvl': 'L3', 'ops': list(o), 'signs': [s0, '', '', ''], 'pcts': pcts, 'br': [list(b) for b in br]}


def gen_L4(ops):
    for o in itertools.product(ops, repeat=4):
        for br in ([], [(1, 3)], [(0, 1), (3, 4)], [(1, 2)], [(0, 3)], [(2, 4)]):
            yield {'lvl': 'L4', 'ops': list(o), 'signs': [''] * 5, 'pcts': [''] * 5, 'br': [list(b) for b in br]}


def gen_unary():
    """unary / percent stacks and a sign after every binary operator (explicit formula templates over A,B)."""
    forms = ['=--{A}', '=-+{A}', '=+-{A}', '=+{A}', '=-{A}', '=---{A}', '={A}%%', '=-{A}%', '=-{A}%%', '=({A}+{B})%', '=({A}*{B})%',
             '=-({A})', '=-({A}+{B})', '=-({A}+{B})*{B}', '=-({A}+{B})%', '=({A})%', '=(-{A})%', '=-(-{A})', '=(({A}))',
             '=(({A}+{B}))*{B}', '={A}%+{B}%', '={A}%*{B}%', '={A}%%*{B}', '={A}%&{B}%', '={A}%={B}%', '={A}%<{B}', '={A}<{B}%',
             '={A}%-{B}', '={A}%+{B}', '={A}%/{B}', '={A}/{B}%', '={A}*{B}%', '={A}-{B}%', '={A}&{B}%']
    for op in OPS11:
        for s in ('-', '+', '--'):
            forms.append('={A}' + op + s + '{B}')
            forms.append('={A}' + op + s + '{B}' + op + '{A}')
            forms.append('=(' + '{A}' + op + s + '{B})' + op + '{A}')
    seen = set()
    for f in forms:
        if f not in seen:
            seen.add(f)
            yield {'lvl': 'U', 'tpl': f}


def gen_literals(tier):
    """decimal spellings i.f"""
    ints = list(range(0, 30))
    maxd = 4 if tier == 'thorough' else 3
    for i in ints if tier == 'thorough' else [0, 1, 2, 7, 10, 29]:
        for d in range(1, maxd + 1):
            for f in range(10 ** d):
                yield {'lvl': 'LIT', 'text': f'{i}.{f:0{d}d}'}
    for i in range(0, 1101):
        yield {'lvl': 'LIT', 'text': str(i)}
    for t in ['007', '00.5', '0.50', '123456789012345', '1234567890.12345', '0.000001', '999999999999999',
              '0.1', '0.7', '1.1', '2.675', '1.005', '4.35', '0.07',
              # 16 and 17 significant digits: the literal still denotes the double nearest to its text
              '0.30000000000000004', '0.3000000000000000', '1.0000000000000002', '1.000000000000001', '1234567890123456',
              '1234567890123457', '9007199254740993', '0.1234567890123456', '0.12345678901234568', '123456789.12345678',
              '0.000012345678901234567', '4.35000000000000053', '2.6749999999999998', '179769313486231570000', '0.1000000000000000055511']:
        yield {'lvl': 'LIT', 'text': t}
    mant = ['1', '1.1', '2.5', '1.15', '9.99', '123', '0.5', '3.3', '7.07', '1.23456']
    for m in mant:
        for e in range(-5, 6):
            yield {'lvl': 'LIT', 'text': f'{m}e{e}'}


def plan(tier, seed):
    thorough = tier == 'thorough'
    vec = [v for v in VECTORS if None not in VECTORS[v]] if thorough else QUICK_VEC
    blank_vec = ['bl', 'b2'] if thorough else ['bl']
    phases = []

    def tag(gen, src, vecs):
        for sk in gen:
            yield dict(sk, src=src, vecs=vecs)

    phases.append({'name': 'L2-override', 'cases': tag(gen_L2(OPS11), 'ov', vec), 'runner': 'run_skeletons', 'chunk': 120})
    phases.append({'name': 'L2-cell', 'cases': tag(gen_L2(OPS11 if thorough else OPS7), 'cell', ['n1', 't3'] + blank_vec), 'runner': 'run_skeletons', 'chunk': 120})
    phases.append({'name': 'L2-literal', 'cases': tag(gen_L2(OPS11 if thorough else OPS7), 'lit', ['n1']), 'runner': 'run_skeletons', 'chunk': 120})
    phases.append({'name': 'L3-override', 'cases': tag(gen_L3(OPS11 if thorough else OPS7), 'ov', vec if thorough else ['n1', 't3', 'z0']),
                   'runner': 'run_skeletons', 'chunk': 120})
    if thorough:
        phases.append({'name': 'L3-cell', 'cases': tag(gen_L3(OPS7), 'cell', ['bl']), 'runner': 'run_skeletons', 'chunk': 120})
    if thorough:
        phases.append({'name': 'L4-override', 'cases': tag(gen_L4(OPS7), 'ov', ['n1', 'n2', 't3']), 'runner': 'run_skeletons', 'chunk': 120})
    for src, vs in (('ov', vec), ('cell', ['n1', 'n2'] + blank_vec), ('lit', ['n1'])):
        phases.append({'name': 'unary-' + src, 'cases': tag(gen_unary(), src, vs), 'runner': 'run_skeletons', 'chunk': 60})
    phases.append({'name': 'literals', 'cases': gen_literals(tier), 'runner': 'run_literals', 'chunk': 400})
    # text literals: the characters between the quotes are the operand, whatever they look like
    tl = [{'t': i, 'u': j} for i in range(len(TEXT_LITS)) for j in range(len(TEXT_LITS))]
    # operands in columns of two and three letters (workbook values and overrides addressed by letters)
    phases.append({'name': 'wide-column-operands', 'cases': [{'ov': m} for m in range(1 << len(WIDE_CELLS))], 'runner': 'run_wide',
                   'chunk': 8})
    # an operand that is blank in the workbook and gets its value from an override (a blank written into the code is lost)
    phases.append({'name': 'blank-operand-overridden', 'cases': [{'a2': i, 'b2': j} for i in range(len(BLANK_OV)) for j in range(len(BLANK_OV))],
                   'runner': 'run_blank_ov', 'chunk': 10})
    phases.append({'name': 'text-literals', 'cases': tl, 'runner': 'run_text_literals', 'chunk': 100})
    return phases


BLANK_OV = [None, 8, 0, -2.5, 'q', True]        # None = left blank
BLANK_FORMS = ['=A2+1', '=A1*A2', '=A2&"x"', '=A1-A2/2>0', '=-A2%', '=A2=B2', '=A2&B2', '=A2+B2*2', '=(A2)', '=A2']


def run_blank_ov(cases, stats):
    from mc import sweep as SW
    cells = {'A1': 5}
    addrs = []
    for k, f in enumerate(BLANK_FORMS):
        cells[f'D{k + 1}'] = f
        addrs.append(f'D{k + 1}')
    cls = SW.get_class([('S', cells)], stats=stats)
    vio = []
    for i, c in enumerate(cases):
        a2, b2 = BLANK_OV[c['a2']], BLANK_OV[c['b2']]
        ov = [(a, v) for a, v in (('A2', a2), ('B2', b2)) if v is not None]
        outs = SW.run(cls, ov, addrs, stats)
        env = R.Env({('S', 'A', 1): 5, ('S', 'A', 2): a2, ('S', 'B', 2): b2}, 'S')
        for f, o in zip(BLANK_FORMS, outs):
            try:
                w = R.evaluate(R.parse(f), env)
            except R.Unspecified:
                stats['x:explored_not_judged'] += 1
                continue
            stats['validated'] += 1
            stats['nontrivial'] += 1
            pct = '%' in f
            ok, _ = R.same_value(w, o, 1e-14 if pct else 0.0)
            if not ok:
                vio.append({'i': i, 'desc': {'lvl': 'BLANK', 'src': 'ov', 'form': f, 'features': sorted(env.events),
                                             'outcome': o[0] if o[0] != 'VALUE' else 'VALUE_MISMATCH'},
                            'expected': D.enc(_refenc(w)), 'observed': [f, D.enc(o[1]) if o[0] == 'VALUE' else list(o), ov]})
    return vio


WIDE_CELLS = {'A1': 100, 'Z1': 200, 'AA1': 3, 'AZ1': 5, 'BA1': 7, 'XFD1': 11}
WIDE_FORMS = {'A3': ('=AA1*2', lambda v: v['AA1'] * 2), 'A4': ('=AZ1-BA1%', lambda v: v['AZ1'] - v['BA1'] / 100),
              'A5': ('=-XFD1&AA1', lambda v: R.text_form(-v['XFD1']) + R.text_form(v['AA1'])), 'A6': ('=AA1=A1', lambda v: v['AA1'] == v['A1']),
              'A7': ('=A1+Z1+AA1+AZ1+BA1+XFD1', lambda v: sum(v.values())), 'A8': ('=$AA$1<BA$1', lambda v: v['AA1'] < v['BA1'])}


def run_wide(cases, stats):
    from mc import sweep as SW
    cls = SW.get_class([('S', dict(WIDE_CELLS, **{a: f for a, (f, _) in WIDE_FORMS.items()}))], stats=stats)
    vio = []
    names = list(WIDE_CELLS)
    for i, c in enumerate(cases):
        vals = dict(WIDE_CELLS)
        ov = []
        for k, a in enumerate(names):
            if c['ov'] >> k & 1:
                vals[a] = 1000 + 17 * k
                ov.append((a, vals[a]))
        outs = SW.run(cls, ov, list(WIDE_FORMS), stats)
        for (a, (f, fn)), o in zip(WIDE_FORMS.items(), outs):
            w = fn(vals)
            stats['validated'] += 1
            stats['nontrivial'] += 1
            ok, _ = R.same_value(w, o, 1e-14)
            if not ok:
                vio.append({'i': i, 'desc': {'lvl': 'WIDE', 'src': 'ov' if ov else 'cell', 'form': f,
                                             'outcome': o[0] if o[0] != 'VALUE' else 'VALUE_MISMATCH'},
                            'expected': D.enc(w), 'observed': [f, D.enc(o[1]) if o[0] == 'VALUE' else list(o), ov]})
    return vio


TEXT_LITS = ['a b', 'a  b', 'a\tb', 'a\nb', 'a \n b', ' a', 'a ', '  ', '', 'A', 'a', "it's", '1', '1 ', '(', ')', 'SUM(1)', 'sum(1', 'A1',
             '$A$1', '+', '%', ',', ';', 'TRUE', 'f(x)', 'ab(', 'a1:b2', "'S'!A1", '1e3', '&', '<>', '{0}', '\\n', '#N/A']


def _numlike(t):
    try:
        float(t)
        return True
    except ValueError:
        return False


def _q(t):
    return '"' + t.replace('"', '""') + '"'


def run_text_literals(cases, stats):
    items = []
    for c in cases:
        t, u = TEXT_LITS[c['t']], TEXT_LITS[c['u']]
        f = {'Z@0': '=' + _q(t) + '&' + _q(u), 'Y@0': '=' + _q(t) + '=' + _q(u), 'X@0': '=B@0&' + _q(t) + '&B@0', 'W@0': '=A@0=' + _q(t),
             'V@0': '=' + _q(t) + '<>' + _q(u)}
        if c['u'] == 0:
            f['U@0'] = '=' + _q(t)
            f['T@0'] = '= ' + _q(t) + ' & ' + _q(t) + ' '[:0]
        items.append({'f': f, 'cells': {'B@0': '<', **({'A@0': u} if u != '' else {})}})
    res = D.eval_items(items, stats=stats)
    vio = []
    for i, (c, it, r) in enumerate(zip(cases, items, res)):
        t, u = TEXT_LITS[c['t']], TEXT_LITS[c['u']]
        want = {'Z@0': t + u, 'X@0': '<' + t + '<', 'U@0': t, 'T@0': t + t}
        try:
            if t != u and _numlike(t) and _numlike(u):
                raise R.Unspecified('two numeric-looking texts')     # C10: explored there, laws only
            eq = R.compare('=', t, u)
            want.update({'Y@0': eq, 'V@0': not eq})
            if u != '':
                want['W@0'] = eq
        except R.Unspecified:
            stats['x:explored_not_judged'] += 1      # texts that differ in case only: C10's statement, not fixed here
        for a, w in want.items():
            if a not in it['f']:
                continue
            out = r[a]
            stats['validated'] += 1
            stats['nontrivial'] += 1
            stats['out:' + _label(out)] += 1
            ok = out[0] == 'VALUE' and type(out[1]) is type(w) and out[1] == w
            if not ok:
                desc = {'lvl': 'TXT', 'src': 'lit', 'form': {'Z@0': 'lit&lit', 'Y@0': 'lit=lit', 'X@0': 'cell&lit&cell', 'W@0': 'cell=lit',
                                                             'V@0': 'lit<>lit', 'U@0': 'lit', 'T@0': 'lit & lit'}[a],
                        'features': sorted({('blanks' if '  ' in x else 'tab' if '\t' in x else 'newline' if '\n' in x else
                                             'quote' if '"' in x else 'plain') for x in (t, u)}),
                        'outcome': out[0] if out[0] != 'VALUE' else 'VALUE_MISMATCH'}
                vio.append({'i': i, 'desc': desc, 'expected': D.enc(w), 'observed': [it['f'][a], D.enc(out[1]) if out[0] == 'VALUE' else list(out)]})
    return vio


# ---------------------------------------------------------------------------------------------

def formula_of(case, names):
    if case['lvl'] == 'U':
        return case['tpl'].format(A=names[0], B=names[1])
    return skel_text(case, names)


def lit_of(v):
    if isinstance(v, bool):
        return 'TRUE' if v else 'FALSE'
    if isinstance(v, str):
        return '"' + v + '"'
    if isinstance(v, (int, float)) and v >= 0:
        return repr(v)
    return None


def features(case, text):
    """Syntactic features of the formula text (what a known-finding key may mention)."""
    import re
    f = []
    if re.search(r'\)%', text):
        f.append('pct_after_bracket')
    if '%%' in text:
        f.append('pct_stack')
    if re.search(r'(^=|[-+*/&=<>(])[-+]', text):
        f.append('sign')
    if re.search(r'[-+]{2}', text[1:]) or re.search(r'^=[-+][-+]', text):
        f.append('sign_stack')
    if '%' in text:
        f.append('pct')
    if '(' in text:
        f.append('brackets')
    return f


def groupings_differ(ast, env):
    """non-trivial: some other grouping of the same operand/operator chain gives a different value."""
    chain = []

    def flat(a):
        if a[0] == 'bin':
            flat(a[2])
            chain.append(a[1])
            flat(a[3])
        else:
            chain.append(a)
    flat(ast)
    if len(chain) < 5:
        return len(chain) >= 3
    try:
        ref = R.evaluate(ast, env)
    except R.Unspecified:
        return True

    def build_left(ch):
        t = ch[0]
        for i in range(1, len(ch), 2):
            t = ('bin', ch[i], t, ch[i + 1])
        return t

    def build_right(ch):
        if len(ch) == 1:
            return ch[0]
        return ('bin', ch[1], ch[0], build_right(ch[2:]))
    for alt in (build_left(chain), build_right(chain)):
        try:
            v = R.evaluate(alt, env)
        except R.Unspecified:
            return True
        if repr(v) != repr(ref):
            return True
    return False


def run_skeletons(cases, stats):
    items = []
    meta = []
    for c in cases:
        src = c['src']
        if src == 'lit':
            vals = VECTORS[c['vecs'][0]]
            names = [lit_of(v) for v in vals]
            text = formula_of(c, names)
            items.append({'f': {'Z@0': text}})
        else:
            names = [n + '@0' for n in NAMES]
            text = formula_of(c, names)
            it = {'f': {'Z@0': text}}
            if src == 'ov':
                it['cells'] = {NAMES[k] + '@0': v for k, v in enumerate(PLANTED)}
            items.append(it)
        meta.append(text)
    vio = []
    # cell source: constants planted per vector -> expand into separate items
    exp_items, owner = [], []
    for i, c in enumerate(cases):
        if c['src'] == 'cell':
            for vn in c['vecs']:
                cells = {NAMES[k] + '@0': v for k, v in enumerate(VECTORS[vn]) if v is not None}
                exp_items.append({'f': items[i]['f'], 'cells': cells})
                owner.append((i, vn))
        else:
            exp_items.append(items[i])
            owner.append((i, None))
    comps = D.compile_items(exp_items, stats=stats)
    for comp, it, (i, vn) in zip(comps, exp_items, owner):
        c = cases[i]
        text_t = meta[i]
        text1 = D._subst(text_t, 1)
        feats = features(c, text1)
        try:
            ast = R.parse(text1)
        except R.Invalid as e:
            raise AssertionError(f'generator produced an invalid formula {text1}: {e}')
        vec_names = [vn] if vn else c['vecs']
        for v_name in vec_names:
            vals = VECTORS[v_name]
            env = R.Env({('S', NAMES[k], 1): v for k, v in enumerate(vals)}, 'S')
            pct = '%' in text1
            if pct:
                env.fuzzy = 1e-13
            ov = None
            if c['src'] == 'ov':
                ov = [(NAMES[k] + '@0', v) for k, v in enumerate(vals) if v is not None]
            out = D.eval_compiled(comp, it, ov, stats)['Z@0']
            stats['out:' + _label(out)] += 1
            try:
                ref = R.evaluate(ast, env)
            except R.Unspecified:
                stats['x:explored_not_judged'] += 1
                continue
            stats['validated'] += 1
            if groupings_differ(ast, env):
                stats['nontrivial'] += 1
            ok, why = R.same_value(ref, out, 1e-14 if pct else 0.0, abs_tol=2e-13 if pct else 0.0)
            if not ok:
                desc = {'lvl': c['lvl'], 'src': c['src'], 'features': feats + sorted(env.events),
                        'ops': ' '.join(c['ops']) if 'ops' in c else c['tpl'], 'vec': v_name,
                        'outcome': out[0] if out[0] != 'VALUE' else 'VALUE_MISMATCH'}
                vio.append({'i': i, 'desc': desc, 'expected': D.enc(_refenc(ref)),
                            'observed': [text1, D.enc(out[1]) if out[0] == 'VALUE' else list(out)]})
    return vio


def _refenc(ref):
    return repr(ref) if isinstance(ref, R.Err) else ref


def _label(out):
    k, v = out
    if k != 'VALUE':
        return k
    if isinstance(v, str) and v.startswith('#'):
        return 'errstr'
    return type(v).__name__


def run_literals(cases, stats):
    items = [{'f': {'Z@0': '=' + c['text']}} for c in cases]
    res = D.eval_items(items, stats=stats)
    vio = []
    for i, (c, r) in enumerate(zip(cases, res)):
        out = r['Z@0']
        t = c['text']
        ref = float(t)
        stats['validated'] += 1
        stats['out:' + _label(out)] += 1
        import re
        m = re.fullmatch(r'(\d+)(?:\.(\d+))?(?:e(-?\d+))?', t)
        naive = int(m.group(1)) + (float('0.' + m.group(2)) if m.group(2) else 0)
        if m.group(3):
            naive = naive * 10 ** int(m.group(3))
        if naive != ref:
            stats['nontrivial'] += 1
        ok = out[0] == 'VALUE' and isinstance(out[1], (int, float)) and not isinstance(out[1], bool) and out[1] == ref \
            and not D.is_blank(out[1])
        if not ok:
            desc = {'lvl': 'LIT', 'src': 'lit', 'form': 'exp' if 'e' in t else ('frac' if '.' in t else 'int'),
                    'outcome': out[0] if out[0] != 'VALUE' else 'VALUE_MISMATCH'}
            vio.append({'i': i, 'desc': desc, 'expected': ref, 'observed': D.enc(out[1]) if out[0] == 'VALUE' else list(out)})
    return vio
