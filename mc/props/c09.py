"""C09 - translation output depends only on the current workbook and settings.

ES : breadth-first exploration of the real Parser over façade calls with state de-duplication on the implementation's
     own fields (live objects are snapshotted with deepcopy; every distinct state's history is afterwards replayed on a
     fresh Parser and must reach the same canonical state = trace validation).  Oracle at every get/write: a fresh Parser
     configured with the model's (path, entry, safety).
EE : sha256 of the text for several workbooks x settings in separate processes per PYTHONHASHSEED, and in one process
     after every other workbook was translated first.
SE : two threads translating concurrently from cold token tables under a cooperative scheduler (mc/sched.py).
"""
import atexit
import collections
import copy
import hashlib
import itertools
import json
import os
import shutil
import subprocess
import sys
import tempfile

from mc import driver as D, corpus
from mc.props.c09_se import run_se, run_inventory  # noqa: F401  (runner of the schedule-enumeration phase)

PROP = 'C09'
RULE = ('ES: BFS over Parser façade calls (set path W1/W2/W3 (unsafe)/WC (cyclic: fails after loading), set entry cell fresh/reused/None, enable/disable safety, get, '
        'write) with de-duplication on (path, entry fields, safety, flags, cached-text hash, reused caller objects); every '
        'get/write compared with a fresh Parser holding the model settings; EE: text hash identical across PYTHONHASHSEED '
        'values (separate processes) and after any other workbook was translated first in the same process; SE: all 2-thread '
        'schedules of concurrent translations from cold token tables up to the preemption bound.  non-trivial = transition '
        'whose get/write follows at least one setter since the previous get')
ASSUMPTIONS = ['Parser state is captured by its instance fields and the caller-owned Cell objects (checked by replaying every '
               'state\'s history on a fresh Parser)', 'CPython: a source line is the finest preemption granularity modelled']

# W1 and W2 deliberately collide: the same formula texts at the same (sheet index, column, row), but other constants,
# a referenced cell that is translated after the formula that uses it, and the sheet T at another index.
WORKBOOKS = {
    'W1': [('S', {'A1': '=B1+T!A1', 'B1': 2, 'C1': '=SUM(A1:B1)'}), ('T', {'A1': '=S!B1*2', 'B1': 5})],
    'W2': [('S', {'A1': '=B1+T!A1', 'B1': 20, 'C1': '=SUM(A1:B1)'}), ('U', {'A1': 9}), ('T', {'A1': '=S!B1*2', 'B1': 6})],
    'W3': [('S', {'A1': 'eval(1)', 'B1': '=1+1', 'C1': 3}), ('T', {'A1': 1, 'B1': 2})],
    # loads and passes the safety check, but its translation fails (S!A1 <-> S!B1 is a cycle); entry e2 (T!A1) is not behind it
    'WC': [('S', {'A1': '=B1+T!A1', 'B1': '=A1', 'C1': '=SUM(A1:B1)'}), ('T', {'A1': 4, 'B1': 5})],
}
EXTRA = {
    'W7': [corpus.sheet('D')],
    'W8': [('X', {'A1': 0}), corpus.sheet('D')],
    # the corpus once more at the same addresses with other constants: anything cached per address across translations shows
    'W9': [('D', {a: ((v * 3 + 1) if isinstance(v, (int, float)) and not isinstance(v, bool) else v)
                  for a, v in corpus.sheet('D')[1].items()})],
    'W4': [('Data', {'A1': 1, 'A2': 2, 'A3': 'x', 'B1': '=SUMIFS(A1:A3,A1:A3,">1")', 'B2': '=IF(A1>0,"p","n")&A3',
                    'B3': '=VLOOKUP(2,A1:B3,1,0)', 'C1': '=COUNTIFS(A1:A3,"x")', 'C2': '=INDEX(A1:B3,2,1)'})],
    'W5': [('a', {'A1': '=b!A1+c!A1'}), ('b', {'A1': '=c!A1*2'}), ('c', {'A1': 7})],
    # constants that are equal as Python values but not as cell values, in both orders: a value-keyed cache across
    # translations changes the text of the workbook that comes second
    'W10': [('S', {'A1': True, 'A2': 1, 'A3': 0, 'A4': False, 'A5': 1.0, 'B1': '=A1&A2&A3&A4', 'C1': '=SUM(A:A)+COUNT(A:B)'})],
    'W11': [('S', {'A1': 1, 'A2': True, 'A3': False, 'A4': 0, 'A5': 2, 'A6': 4, 'A7': 8, 'B1': '=A1&A2&A3&A4', 'C1': '=SUM(A:A)+COUNT(A:B)'})],
    'W12': [('S', {'A1': 5, 'A2': 6, 'C1': '=SUM(A:A)+COUNT(A:B)', 'D1': '=VLOOKUP(6,A:B,1,0)'})],
    'W0': [('S', {}), ('T', {})],      # no cell at all
    # nested far deeper than the default recursion limit allows: refused in a fresh process - and after any history
    'WD': [('S', {'A1': '=' + 'SUM(' * 300 + '1' + ')' * 300, 'B1': 2})],
    # arguments spelled twice inside one call (anything that de-duplicates them through a set orders them by hash)
    'W13': [('S', dict({f'{c}1': i + 1 for i, c in enumerate('ABCDEF')},
                       A2='=MIN(A1,B1,C1,D1,E1,F1,A1)', B2='=MAX(F1,A1,B1,C1,D1,E1,F1)', C2='=SUM(A1,B1,A1,C1,D1,B1)',
                       D2='=AVERAGE(A1:B1,C1,A1:B1,D1,E1)', E2='=COUNT(A1,B1,C1,A1,D1,E1,F1)', F2='=AND(A1>0,B1>0,A1>0,C1>0,D1>0)',
                       G2='=OR(A1>9,B1>9,C1>9,A1>9,D1>9)', H2='=CONCATENATE(A1,B1,C1,A1,D1,E1)', I2='=A1&B1&C1&A1&D1&E1&A1',
                       J2='=IFS(A1>5,B1,C1>5,D1,A1>5,E1,TRUE,F1)', K2='=SUMIFS(A1:F1,A1:F1,">1",A1:F1,"<6",A1:F1,">1")',
                       L2='=COUNTIFS(A1:F1,">1",A1:F1,"<6",A1:F1,">1")', M2='=NETWORKDAYS(A1,F1,A1:F1)'))],
    'W6': [('S', {f'{c}{r}': (r * 10 + i if (r + i) % 3 else f'={c}{r - 1 or 9}+1') for i, c in enumerate('ABCDE')
                  for r in range(1, 9) if not (r == 1 and (r + i) % 3 == 0)})],
}
ENTRIES = {'e1': (0, 1, 0), 'e2': ('T', 'A', '1'), 'e3': ('S', 'C', '1')}

_DIR = None
_PATHS = {}


def paths():
    global _DIR
    if _DIR is None:
        _DIR = tempfile.mkdtemp(prefix='c09-')
        atexit.register(shutil.rmtree, _DIR, True)
        for name, spec in {**WORKBOOKS, **EXTRA}.items():
            p = os.path.join(_DIR, name + '.xlsx')
            with open(p, 'wb') as f:
                f.write(D.build_xlsx(spec).getvalue())
            _PATHS[name] = p
    return _PATHS


# 'rewrite': the file behind the path of W1 gets other content and the SAME path is handed to the parser again
OPS = [('path', 'W1'), ('path', 'W2'), ('path', 'W3'), ('path', 'WC'), ('rewrite', 'W1'), ('entry', 'e1', 'fresh'), ('entry', 'e2', 'fresh'),
       ('entry', 'e2', 'reused'), ('entry', 'e3', 'reused'), ('entry', None, None), ('enable',), ('disable',), ('get',),
       ('write',)]


def plan(tier, seed):
    depth = 7 if tier == 'thorough' else 5
    phases = [{'name': f'parser-bfs-depth-{depth}', 'cases': [{'depth': depth}], 'runner': 'run_bfs', 'chunk': 1,
               'serial': True}]
    seeds = range(32) if tier == 'thorough' else range(8)
    seeds = [(s + 7919 * seed) % 4294967295 for s in seeds]
    phases.append({'name': 'hash-seeds', 'cases': [{'hashseed': s} for s in seeds], 'runner': 'run_seed', 'chunk': 1})
    names = sorted({**WORKBOOKS, **EXTRA})
    phases.append({'name': 'process-history', 'cases': [{'first': a, 'then': b} for a in names for b in names],
                   'runner': 'run_history_pairs', 'chunk': 5})
    # the written file is the returned text, for every workbook of the alphabet (a workbook without any cell included)
    phases.append({'name': 'written-file-equals-text', 'cases': [{'wb': n} for n in names], 'runner': 'run_written', 'chunk': 4})
    from mc.props import c09_se
    phases += c09_se.phases(tier, seed)
    return phases


# ---------------------------------------------------------------------------------------------
# ES

_ORACLE = {}


def outcome_of(parser_call):
    try:
        r = parser_call()
        return ['TEXT', r] if isinstance(r, str) else ['NOT_TEXT', repr(r)[:80]]
    except Exception as e:  # noqa
        return [D.exc_kind(e)]


_W1_ON_DISK = [0]
W1_V1 = [('S', {'A1': '=B1+T!A1', 'B1': 3, 'C1': '=SUM(A1:B1)'}), ('T', {'A1': '=S!B1*2', 'B1': 5})]


def sync_files(model):
    """The file behind W1's path holds the content version of the model state that is about to act."""
    v = model.get('w1', 0)
    if _W1_ON_DISK[0] != v:
        with open(paths()['W1'], 'wb') as f:
            f.write(D.build_xlsx(W1_V1 if v else WORKBOOKS['W1']).getvalue())
        _W1_ON_DISK[0] = v


def oracle(model, stats):
    sync_files(model)
    key = (model['path'], model.get('w1', 0) if model['path'] == 'W1' else 0, model['entry'], model['safety'])
    if key not in _ORACLE:
        p = D.Parser()
        if model['safety']:
            p.enable_safety_check()
        else:
            p.disable_safety_check()
        if model['path']:
            p.set_excel_file_path(paths()[model['path']])
        if model['entry']:
            p.set_entrypoint_cell(D.Cell(*ENTRIES[model['entry']]))
        _ORACLE[key] = outcome_of(p.get_translation)
        stats['x:oracle_translations'] += 1
    return _ORACLE[key]


def expected_kind(model):
    """TEXT / exception kind that the current settings must produce (None: no path yet - not fixed here)"""
    path, entry, safety = model['path'], model['entry'], model['safety']
    if path is None:
        return None
    if path == 'W3' and safety:
        return 'LIB_EXC:safety'
    if path == 'WC' and entry != 'e2':
        return 'LIB_EXC:parser'
    return 'TEXT'


def canon(parser, reused):
    def cell(c):
        return None if c is None else (c.title, c.column, c.row, repr(c.value), c._handled_identifiers)
    d = dict(vars(parser))
    tr = d.pop('_translation', None)
    ent = d.pop('_entrypoint_cell', None)
    path = d.pop('_excel_file_path', None)
    return (os.path.basename(path) if path else None, cell(ent), hashlib.sha256(tr.encode()).hexdigest()[:16] if tr else None,
            tuple(sorted((k, repr(v)) for k, v in d.items())), tuple(sorted((k, cell(c)) for k, c in reused.items())))


def apply_op(parser, reused, model, op, stats, tmpdir):
    """Applies one operation to the live objects and the model; returns a violation detail or None."""
    kind = op[0]
    stats['transitions'] += 1
    sync_files(model)
    if kind == 'rewrite':
        model['w1'] = 1 - model.get('w1', 0)
        sync_files(model)
        parser.set_excel_file_path(paths()['W1'])
        model['path'] = 'W1'
    elif kind == 'path':
        parser.set_excel_file_path(paths()[op[1]])
        model['path'] = op[1]
    elif kind == 'entry':
        if op[1] is None:
            parser.set_entrypoint_cell(None)
        elif op[2] == 'fresh':
            parser.set_entrypoint_cell(D.Cell(*ENTRIES[op[1]]))
        else:
            parser.set_entrypoint_cell(reused.setdefault(op[1], D.Cell(*ENTRIES[op[1]])))
        model['entry'] = op[1]
    elif kind == 'enable':
        parser.enable_safety_check()
        model['safety'] = True
    elif kind == 'disable':
        parser.disable_safety_check()
        model['safety'] = False
    elif kind == 'get':
        got = outcome_of(parser.get_translation)
        exp = oracle(model, stats)
        stats['validated'] += 1
        kind_wanted = expected_kind(model)
        if kind_wanted and exp[0] != kind_wanted:
            # the differential oracle is the same library: what kind of answer the settings deserve is fixed by hand
            return {'clause': 'oracle_kind', 'expected': kind_wanted, 'got': _brief(exp)}
        if got != exp:
            return {'clause': 'stale' if got[0] == 'TEXT' and exp[0] == 'TEXT' else 'outcome', 'expected': _brief(exp),
                    'got': _brief(got)}
        got2 = outcome_of(parser.get_translation)
        if got2 != got:
            return {'clause': 'repeat', 'expected': _brief(got), 'got': _brief(got2)}
    elif kind == 'write':
        out = os.path.join(tmpdir, 'out.py')
        if os.path.exists(out):
            os.remove(out)
        got = outcome_of(lambda: parser.write_translation(out) and open(out, encoding='utf-8').read())
        exp = oracle(model, stats)
        stats['validated'] += 1
        if got != exp:
            return {'clause': 'file', 'expected': _brief(exp), 'got': _brief(got)}
    return None


def _brief(o):
    if o[0] == 'TEXT':
        body = o[1][o[1].rfind('exec_function_in') if False else 0:]
        defs = [l.strip() for l in body.splitlines() if l.startswith('    def _') and l[9:10].isdigit()]
        return ['TEXT', hashlib.sha256(o[1].encode()).hexdigest()[:12], defs[:8]]
    return o


def run_bfs(cases, stats):
    depth = cases[0]['depth']
    tmpdir = tempfile.mkdtemp(prefix='c09-out-')
    vio = []
    try:
        init = (D.Parser(), {}, {'path': None, 'entry': None, 'safety': True})
        seen = {canon(init[0], init[1]) + (0,): ()}
        frontier = [((), init)]
        max_depth = 0
        for d in range(1, depth + 1):
            nxt = []
            for hist, state in frontier:
                for oi, op in enumerate(OPS):
                    parser, reused, model = copy.deepcopy(state)
                    bad = apply_op(parser, reused, model, op, stats, tmpdir)
                    h2 = hist + (oi,)
                    since = _setters_since_get(h2)
                    if op[0] in ('get', 'write') and since:
                        stats['nontrivial'] += 1
                    if bad:
                        stats['out:' + bad['clause']] += 1
                        vio.append({'i': 0, 'desc': {'clause': bad['clause'], 'op': op[0], 'setters_since_get': since,
                                                     'depth': len(h2), 'outcome': 'STALE_OR_WRONG_TEXT'},
                                    'expected': bad['expected'],
                                    'observed': {'history': [list(OPS[o]) for o in h2], 'got': bad['got']}, 'noconfirm': True})
                        continue
                    stats['out:ok'] += 1
                    k = canon(parser, reused) + (model.get('w1', 0),)
                    if k not in seen:
                        seen[k] = h2
                        nxt.append((h2, (parser, reused, model)))
                        max_depth = d
            frontier = nxt
            if not frontier:
                break
        stats['x:bfs_states'] = len(seen)
        stats['x:bfs_max_depth_with_new_states'] = max_depth
        stats['x:bfs_closed'] = int(not frontier)
        # trace validation: replay every state's history on a fresh Parser; it must reach the same canonical state
        for k, hist in seen.items():
            parser, reused, model = D.Parser(), {}, {'path': None, 'entry': None, 'safety': True}
            st = collections.Counter()
            for oi in hist:
                apply_op(parser, reused, model, OPS[oi], st, tmpdir)
            stats['x:replayed_histories'] += 1
            if canon(parser, reused) + (model.get('w1', 0),) != k:
                vio.append({'i': 0, 'desc': {'clause': 'replay_divergence', 'outcome': 'HARNESS'}, 'expected': repr(k),
                            'observed': {'history': [list(OPS[o]) for o in hist], 'got': repr(canon(parser, reused))},
                            'noconfirm': True})
    finally:
        shutil.rmtree(tmpdir, True)
    # keep one violation per descriptor to bound the output
    uniq = {}
    for v in vio:
        uniq.setdefault(json.dumps(v['desc'], sort_keys=True), v)
    return list(uniq.values())


def _setters_since_get(h):
    out = []
    for oi in reversed(h[:-1]):
        if OPS[oi][0] in ('get', 'write'):
            break
        out.append(OPS[oi][0])
    return sorted(set(out))


# ---------------------------------------------------------------------------------------------
# EE

SETTINGS = [(None, False), ('first', False)]


def texts_for(name):
    """sha256 of the translation for every setting of one workbook"""
    out = {}
    spec = {**WORKBOOKS, **EXTRA}[name]
    for entry, safety in SETTINGS:
        p = D.Parser().disable_safety_check().set_excel_file_path(paths()[name])
        if entry:
            title, cells = spec[0]
            if not cells:
                continue      # a workbook without cells has no entry cell to offer
            a = sorted(cells)[len(cells) // 2]
            col, row = D.split_a1(a)
            p.set_entrypoint_cell(D.Cell(title, col, row))
        o = outcome_of(p.get_translation)
        out[f'{name}/{entry}'] = hashlib.sha256(o[1].encode()).hexdigest() if o[0] == 'TEXT' else o[0]
    return out


_BASE = None


def baseline():
    global _BASE
    if _BASE is None:
        _BASE = {}
        for n in sorted({**WORKBOOKS, **EXTRA}):
            _BASE.update(texts_for(n))
    return _BASE


def run_seed(cases, stats):
    vio = []
    base = baseline()
    for i, c in enumerate(cases):
        env = dict(os.environ, PYTHONHASHSEED=str(c['hashseed']))
        p = subprocess.run([sys.executable, '-m', 'mc.props.c09', 'hashes'], capture_output=True, text=True, env=env,
                           cwd=os.path.dirname(os.path.dirname(os.path.dirname(os.path.abspath(__file__)))), timeout=600)
        stats['transitions'] += 1
        if p.returncode != 0:
            raise RuntimeError('seed subprocess failed: ' + p.stderr[-2000:])
        got = json.loads(p.stdout.strip().splitlines()[-1])
        stats['validated'] += len(got)
        diff = sorted(k for k in base if got.get(k) != base[k])
        stats['out:seed-' + ('same' if not diff else 'differs')] += 1
        if diff:
            vio.append({'i': i, 'desc': {'clause': 'hashseed', 'outcome': 'TEXT_DIFFERS'}, 'expected': {k: base[k] for k in diff},
                        'observed': {k: got.get(k) for k in diff}})
    return vio


def run_written(cases, stats):
    vio = []
    spec_of = {**WORKBOOKS, **EXTRA}
    for i, c in enumerate(cases):
        name = c['wb']
        spec = spec_of[name]
        entries = [None]
        if spec[0][1]:
            a = sorted(spec[0][1])[len(spec[0][1]) // 2]
            entries.append((spec[0][0],) + tuple(D.split_a1(a)))
        for entry in entries:
            for safety in (False, True):
                p = D.Parser().set_excel_file_path(paths()[name])
                p.enable_safety_check() if safety else p.disable_safety_check()
                if entry:
                    p.set_entrypoint_cell(D.Cell(*entry))
                out = os.path.join(tempfile.gettempdir(), f'c09-written-{os.getpid()}.py')
                if os.path.exists(out):
                    os.remove(out)
                got_w = outcome_of(lambda: p.write_translation(out) and open(out, encoding='utf-8', newline='').read())
                got_t = outcome_of(p.get_translation)
                fresh = D.Parser().set_excel_file_path(paths()[name])
                fresh.enable_safety_check() if safety else fresh.disable_safety_check()
                if entry:
                    fresh.set_entrypoint_cell(D.Cell(*entry))
                exp = outcome_of(fresh.get_translation)
                stats['transitions'] += 3
                stats['validated'] += 1
                stats['out:' + exp[0]] += 1
                if not (got_w == got_t == exp):
                    vio.append({'i': i, 'desc': {'clause': 'file', 'wb': name, 'entry': bool(entry), 'safety': safety,
                                                 'outcome': 'FILE_DIFFERS' if got_w[0] == exp[0] == 'TEXT' else got_w[0]},
                                'expected': _brief(exp), 'observed': {'written': _brief(got_w), 'returned': _brief(got_t),
                                                                       'lengths': [len(x[1]) if x[0] == 'TEXT' else None for x in (got_w, got_t, exp)]}})
    return vio


def run_history_pairs(cases, stats):
    """a cold process translates `first` and then `then`; the second text must equal the baseline"""
    vio = []
    base = baseline()
    for i, c in enumerate(cases):
        p = subprocess.run([sys.executable, '-m', 'mc.props.c09', 'pair', c['first'], c['then']], capture_output=True,
                           text=True, cwd=os.path.dirname(os.path.dirname(os.path.dirname(os.path.abspath(__file__)))),
                           timeout=600)
        if p.returncode != 0:
            raise RuntimeError('pair subprocess failed: ' + p.stderr[-2000:])
        got = json.loads(p.stdout.strip().splitlines()[-1])
        stats['transitions'] += 2
        stats['validated'] += len(got)
        stats['nontrivial'] += 1
        diff = sorted(k for k in got if got[k] != base[k])
        stats['out:history-' + ('same' if not diff else 'differs')] += 1
        if diff:
            vio.append({'i': i, 'desc': {'clause': 'history', 'outcome': 'TEXT_DIFFERS'}, 'expected': {k: base[k] for k in diff},
                        'observed': {k: got[k] for k in diff}})
    return vio


if __name__ == '__main__':
    if sys.argv[1] == 'hashes':
        print(json.dumps(baseline()))
    elif sys.argv[1] == 'pair':
        texts_for(sys.argv[2])
        print(json.dumps(texts_for(sys.argv[3])))
