"""Driving the real excel2pycl pipeline.

Workbooks are real .xlsx files built with openpyxl in memory (BytesIO) and handed to the real
``Parser.set_excel_file_path`` -> ``Excel.parse`` -> translators -> ``Context.build_class``; the
generated source is compiled and evaluated through the real ``Executor``.

A workbook spec is ``[(title, {"A1": value, ...}), ...]`` (JSON-able after ``enc``).
"""
from __future__ import annotations

import datetime
import io
import os
import re
import signal
import sys
import warnings

_REPO = os.environ.get('VERIF_REPO')
if _REPO:
    sys.path.insert(0, _REPO)

warnings.filterwarnings('ignore', category=SyntaxWarning)

from openpyxl import Workbook  # noqa: E402
from openpyxl.utils import column_index_from_string as column_index  # noqa: E402
from openpyxl.worksheet.formula import ArrayFormula  # noqa: E402

import excel2pycl  # noqa: E402
from excel2pycl import Parser, Executor, Cell  # noqa: E402
from excel2pycl.src.exceptions import E2PyclException, E2PyclParserException, E2PyclSafetyException, \
    E2PyclCellException, E2PyclExecutorException  # noqa: E402


def repo_root() -> str:
    return os.path.dirname(os.path.dirname(os.path.abspath(excel2pycl.__file__)))


# ---------------------------------------------------------------------------------------------
# time limit

class CaseTimeout(BaseException):
    pass


class time_limit:
    """Wall-clock budget for pure-Python code (SIGALRM, re-armed so a bare ``except:`` in the code
    under test cannot swallow it for good)."""

    def __init__(self, seconds: float):
        self.seconds = seconds

    def _handler(self, signum, frame):
        raise CaseTimeout()

    def __enter__(self):
        self._old = signal.signal(signal.SIGALRM, self._handler)
        signal.setitimer(signal.ITIMER_REAL, self.seconds, 0.05)
        return self

    def __exit__(self, *a):
        signal.setitimer(signal.ITIMER_REAL, 0)
        signal.signal(signal.SIGALRM, self._old)
        return False


# ---------------------------------------------------------------------------------------------
# JSON tagging of values

def enc(v):
    if isinstance(v, bool) or v is None or isinstance(v, (int, str)):
        if is_blank(v) and v is not None:
            return {'$blank': 1}
        return v
    if isinstance(v, float):
        if v != v or v in (float('inf'), float('-inf')):
            return {'$float': repr(v)}
        return v
    if isinstance(v, datetime.datetime):
        return {'$datetime': v.isoformat()}
    if isinstance(v, datetime.date):
        return {'$date': v.isoformat()}
    if isinstance(v, datetime.time):
        return {'$time': v.isoformat()}
    if isinstance(v, datetime.timedelta):
        return {'$timedelta': v.total_seconds()}
    if isinstance(v, (list, tuple)):
        return [enc(i) for i in v]
    if isinstance(v, dict):
        return {str(k): enc(x) for k, x in v.items()}
    if isinstance(v, ArrayFormula):
        return {'$array': [v.ref, v.text]}
    return {'$repr': repr(v)}


def dec(v):
    if isinstance(v, list):
        return [dec(i) for i in v]
    if isinstance(v, dict):
        if len(v) == 1:
            (k, x), = v.items()
            if k == '$blank':
                return None
            if k == '$float':
                return float(x)
            if k == '$datetime':
                return datetime.datetime.fromisoformat(x)
            if k == '$date':
                return datetime.date.fromisoformat(x)
            if k == '$time':
                return datetime.time.fromisoformat(x)
            if k == '$timedelta':
                return datetime.timedelta(seconds=x)
            if k == '$array':
                return ArrayFormula(x[0], x[1])
            if k == '$repr':
                return x
        return {k: dec(x) for k, x in v.items()}
    return v


def is_blank(v) -> bool:
    """The runtime's blank object, recognised structurally (an int subclass named EmptyCell) or None."""
    return v is None or type(v).__name__ == 'EmptyCell'


# ---------------------------------------------------------------------------------------------
# workbooks

CHART_SHEET = '$chart-sheet'      # in place of the cells of a sheet spec: a chart sheet


def build_xlsx(sheets) -> io.BytesIO:
    wb = Workbook()
    wb.remove(wb.active)
    charts = []
    for title, cells in sheets:
        if cells == CHART_SHEET:
            charts.append(wb.create_chartsheet(title))     # a tab that holds one chart and no cells
            continue
        ws = wb.create_sheet(title=title)
        for addr, value in cells.items():
            ws[addr] = value
    if charts:
        from openpyxl.chart import BarChart, Reference
        for cs in charts:
            chart = BarChart()
            chart.add_data(Reference(wb.worksheets[0], min_col=1, min_row=1, max_row=2))
            cs.add_chart(chart)
    bio = io.BytesIO()
    wb.save(bio)
    bio.seek(0)
    return bio


def exc_kind(e: BaseException) -> str:
    if isinstance(e, E2PyclSafetyException):
        return 'LIB_EXC:safety'
    if isinstance(e, E2PyclParserException):
        return 'LIB_EXC:parser'
    if isinstance(e, E2PyclCellException):
        return 'LIB_EXC:cell'
    if isinstance(e, E2PyclExecutorException):
        return 'LIB_EXC:executor'
    if isinstance(e, E2PyclException):
        return 'LIB_EXC:other'
    return 'FOREIGN_EXC:' + type(e).__name__


def translate(source, entry=None, safety=False, budget: float = 20.0):
    """source: workbook spec or a file object/path.  Returns ('TEXT', text) | (outcome, detail)."""
    if isinstance(source, list):
        source = build_xlsx(source)
    elif hasattr(source, 'seek'):
        source.seek(0)
    p = Parser()
    p.enable_safety_check() if safety else p.disable_safety_check()
    p.set_excel_file_path(source)
    if entry is not None:
        p.set_entrypoint_cell(Cell(*entry))
    try:
        with time_limit(budget):
            return 'TEXT', p.get_translation()
    except CaseTimeout:
        return 'TIMEOUT', 'translate'
    except RecursionError as e:
        return 'FOREIGN_EXC:RecursionError', ''
    except Exception as e:  # noqa
        return exc_kind(e), _short(e)


def _short(e):
    s = str(e)
    return s if len(s) < 300 else s[:300] + '…'


def load_class(text: str):
    """Compile and execute the generated module.  Returns ('CLASS', cls, ns) or ('LOAD_ERROR:<T>', detail, None)."""
    ns = {'__name__': 'e2pycl_generated'}
    try:
        code = compile(text, '<generated>', 'exec')
        exec(code, ns)
        return 'CLASS', ns['ExcelInPython'], ns
    except BaseException as e:  # noqa
        if isinstance(e, (KeyboardInterrupt, CaseTimeout)):
            raise
        return 'LOAD_ERROR:' + type(e).__name__, _short(e), None


def new_executor(cls) -> Executor:
    return Executor().set_executed_class(class_object=cls)


def eval_cell(ex: Executor, title, col, row, budget: float = 10.0):
    """Returns ('VALUE', v) | ('EVAL_EXC:<T>', detail) | ('TIMEOUT', ...)."""
    try:
        with time_limit(budget):
            return 'VALUE', ex.get_cell(Cell(title, col, row)).value
    except CaseTimeout:
        return 'TIMEOUT', 'eval'
    except RecursionError:
        return 'EVAL_EXC:RecursionError', ''
    except Exception as e:  # noqa
        return 'EVAL_EXC:' + type(e).__name__, _short(e)


_A1 = re.compile(r'^([A-Z]+)(\d+)$')


def split_a1(addr: str):
    m = _A1.match(addr)
    return m.group(1), m.group(2)


# ---------------------------------------------------------------------------------------------
# batched evaluation of independent formula items
#
# item = {'f': {'Z@0': '=A@0+B@0', ...}, 'cells': {'A@0': 1, 'B@0': 2}, 'h': 1}
# '@k' is replaced by (base row + k); every item gets its own block of h rows on sheet 'S'.
# Result per item: {addr_template: outcome}

_AT = re.compile(r'@(\d+)')


def _subst(s, base):
    return _AT.sub(lambda m: str(base + int(m.group(1))), s) if isinstance(s, str) else s


def layout(items, extra_sheets=None, sheet='S', first_row=1, base_cells=None, sheet_pos=0):
    cells = dict(base_cells or {})
    bases = []
    row = first_row
    for it in items:
        bases.append(row)
        for a, v in it.get('cells', {}).items():
            cells[_subst(a, row)] = _subst(v, row) if isinstance(v, str) and v.startswith('=') else v
        for a, f in it['f'].items():
            cells[_subst(a, row)] = _subst(f, row)
        row += it.get('h', 1)
    extra = list(extra_sheets or [])
    sheets = extra[:sheet_pos] + [(sheet, cells)] + extra[sheet_pos:]
    return sheets, bases


def compile_items(items, extra_sheets=None, safety=False, stats=None, sheet='S', batch=200, first_row=1, base_cells=None,
                  sheet_pos=0):
    """Translate + load formula items batch-wise, bisecting on failure.
    Returns per item ('OK', cls, base_row) or (failure outcome, detail, None)."""
    if stats is None:
        stats = {}
    res = [None] * len(items)

    def run(idx):
        sub = [items[i] for i in idx]
        sheets, bases = layout(sub, extra_sheets, sheet, first_row, base_cells, sheet_pos)
        stats['translations'] = stats.get('translations', 0) + 1
        stats['transitions'] = stats.get('transitions', 0) + 1
        kind, text = translate(sheets, safety=safety)
        if kind == 'TEXT':
            kind2, cls, _ = load_class(text)
            if kind2 != 'CLASS':
                kind, text = kind2, cls
        if kind != 'TEXT':
            if len(idx) == 1:
                res[idx[0]] = (kind, text, None)
            else:
                mid = len(idx) // 2
                run(idx[:mid])
                run(idx[mid:])
            return
        for i, base in zip(idx, bases):
            res[i] = ('OK', cls, base)

    for s in range(0, len(items), batch):
        run(list(range(s, min(s + batch, len(items)))))
    return res


def eval_compiled(comp, item, ov=None, stats=None, sheet='S', addrs=None):
    """Evaluate the formula cells of one compiled item under an optional override list [(addr_template, value)]."""
    kind, cls, base = comp
    addrs = list(item['f']) if addrs is None else addrs
    if kind != 'OK':
        return {a: (kind, cls) for a in addrs}
    ex = new_executor(cls)
    if ov:
        cells = [Cell(sheet, *split_a1(_subst(a, base)), value=v) for a, v in ov]
        if len(cells) > 1 and addrs:
            # the operands arrive in two batches with a query in between (same final state as one batch; an
            # implementation that forgets earlier batches shows up in every override-driven check)
            ex.set_cells(cells[:1])
            eval_cell(ex, sheet, *split_a1(_subst(addrs[0], base)))
            ex.set_cells(cells[1:])
        else:
            ex.set_cells(cells)
    out = {}
    for a in addrs:
        if stats is not None:
            stats['evaluations'] = stats.get('evaluations', 0) + 1
            stats['transitions'] = stats.get('transitions', 0) + 1
        out[a] = eval_cell(ex, sheet, *split_a1(_subst(a, base)))
    return out


def eval_items(items, extra_sheets=None, safety=False, stats=None, sheet='S'):
    """Evaluate formula items (item['ov'] = optional {addr_template: value} overrides).
    Returns list (per item) of dict addr_template -> (outcome, value_or_detail)."""
    comps = compile_items(items, extra_sheets, safety, stats, sheet)
    return [eval_compiled(c, it, list(it['ov'].items()) if it.get('ov') else None, stats, sheet)
            for c, it in zip(comps, items)]
