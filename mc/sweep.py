"""Value sweeps: one workbook translated once by the real Parser, many evaluations through the real Executor,
each with its own fresh Executor and override list (Executor.set_cells).  Translated classes are memoised per
worker process (keyed by the workbook spec), so a chunk pays for one translation + one compile."""
from __future__ import annotations

import json

from mc import driver as D

_CACHE = {}


class SweepError(Exception):
    pass


def get_class(sheets, entry=None, safety=False, stats=None):
    """sheets: workbook spec [(title, {addr: value})].  Returns the loaded class (raises SweepError otherwise:
    a sweep's own scaffold must translate; scaffolds contain only corpus-style valid formulas)."""
    key = json.dumps([D.enc(sheets), entry, safety], sort_keys=True, default=str)
    if key in _CACHE:
        return _CACHE[key]
    kind, text = D.translate(sheets, entry=entry, safety=safety)
    if stats is not None:
        stats['transitions'] += 1
        stats['x:translations'] += 1
    if kind != 'TEXT':
        raise SweepError(f'scaffold does not translate: {kind} {text}')
    k2, cls, _ = D.load_class(text)
    if k2 != 'CLASS':
        raise SweepError(f'scaffold does not load: {k2} {cls}')
    _CACHE[key] = cls
    return cls


def try_class(sheets, entry=None, safety=False, stats=None):
    """Like get_class but returns (outcome, cls_or_detail)."""
    try:
        return 'OK', get_class(sheets, entry, safety, stats)
    except SweepError as e:
        return 'SCAFFOLD', str(e)


def run(cls, ov, addrs, stats=None, sheet='S'):
    """ov: list of (addr | (sheet, addr), value); addrs: list of addr | (sheet, addr).  Fresh Executor per call.
    Returns list of outcomes (kind, value)."""
    ex = D.new_executor(cls)
    cells = []
    for a, v in ov:
        s, a = (sheet, a) if isinstance(a, str) else a
        cells.append(D.Cell(s, *D.split_a1(a), value=v))
    try:
        if len(cells) > 1 and addrs:
            # two batches with a query in between: the final state is that of one batch (C04), an implementation that
            # forgets earlier batches shows up here as well
            ex.set_cells(cells[:1])
            s0, a0 = (sheet, addrs[0]) if isinstance(addrs[0], str) else addrs[0]
            D.eval_cell(ex, s0, *D.split_a1(a0))
            ex.set_cells(cells[1:])
        elif cells:
            ex.set_cells(cells)
    except Exception as e:  # noqa - an override the Executor refuses is an outcome of every query that follows
        if stats is not None:
            stats['x:set_cells_refused'] += 1
        return [('SET_CELLS_EXC:' + type(e).__name__, str(e)[:200])] * len(addrs)
    out = []
    for a in addrs:
        s, a = (sheet, a) if isinstance(a, str) else a
        out.append(D.eval_cell(ex, s, *D.split_a1(a)))
    if stats is not None:
        stats['evaluations'] += len(addrs)
        stats['transitions'] += len(addrs)
    return out


def out_label(o):
    k, v = o
    if k != 'VALUE':
        return k
    if D.is_blank(v):
        return 'blank'
    if isinstance(v, str) and v.startswith('#'):
        return 'errstr:' + v
    return type(v).__name__


def obs(o):
    k, v = o
    return D.enc(v) if k == 'VALUE' else [k, v]
