"""Independent reference model for the supported formula subset (never imports excel2pycl).

tokenize -> parse (precedence climbing with exactly the table of C01) -> lazy evaluation.
Values: int/float (Num), str (Text), bool, datetime (Date), None (Blank), Err(kind).
Anything the property statements do not fix raises Unspecified (explored, not judged).
"""
from __future__ import annotations

import datetime
import re
from decimal import Decimal


class Unspecified(Exception):
    pass


class Invalid(Exception):
    """The text is not a formula of the reference grammar."""


class Err:
    def __init__(self, kind='ANY'):
        self.kind = kind

    def __repr__(self):
        return f'Err({self.kind})'

    def __eq__(self, other):
        return isinstance(other, Err) and other.kind == self.kind

    def __hash__(self):
        return hash(('Err', self.kind))


ERR_NAMES = {'DIV0': '#DIV/0!', 'VALUE': '#VALUE!', 'NA': '#N/A', 'REF': '#REF!', 'NUM': '#NUM!', 'NAME': '#NAME?'}
NAME_ERR = {v: k for k, v in ERR_NAMES.items()}

# ---------------------------------------------------------------------------------------------
# tokenizer

TOKEN_RE = re.compile(r'''
    (?P<ws>[ \t\n]+)
  | (?P<num>\d+(?:\.\d+)?(?:e-?\d+)?)
  | (?P<str>"(?:[^"]|"")*")
  | (?P<range>(?:(?:'(?:[^']|'')*'|[A-Za-z_Ѐ-ӿ][\w.]*)!)?\$?[A-Z]{1,3}(?:\$?\d+)?:\$?[A-Z]{1,3}(?:\$?\d+)?(?![\w(]))
  | (?P<ref>(?:(?:'(?:[^']|'')*'|[A-Za-z_Ѐ-ӿ][\w.]*)!)?\$?[A-Z]{1,3}\$?\d+(?![\w(]))
  | (?P<func>[A-Z][A-Z0-9.]*(?=\())
  | (?P<bool>TRUE|FALSE)(?![\w(])
  | (?P<op><>|<=|>=|[-+*/&=<>%(),;])
''', re.X)


def tokenize(text: str):
    pos = 0
    out = []
    while pos < len(text):
        m = TOKEN_RE.match(text, pos)
        if not m:
            raise Invalid(f'cannot tokenize at {pos}: {text[pos:pos + 10]!r}')
        pos = m.end()
        k = m.lastgroup
        if k == 'ws':
            continue
        out.append((k, m.group(k)))
    return out


# ---------------------------------------------------------------------------------------------
# parser -> AST tuples
#   ('num', text) ('str', s) ('bool', b) ('ref', text) ('range', text)
#   ('neg', x) ('pos', x) ('pct', x) ('bin', op, l, r) ('call', name, [args]) ('paren', x)

CMP = ('=', '<>', '<', '<=', '>', '>=')
TRAILING_SEP_OK = {'ROUNDUP': 1, 'ROUNDDOWN': 1}


class _P:
    def __init__(self, toks):
        self.t = toks
        self.i = 0

    def peek(self):
        return self.t[self.i] if self.i < len(self.t) else (None, None)

    def take(self):
        tok = self.peek()
        self.i += 1
        return tok

    def expect_op(self, s):
        k, v = self.take()
        if k != 'op' or v != s:
            raise Invalid(f'expected {s!r} got {v!r}')

    def expr(self):
        left = self.cat()
        while self.peek()[0] == 'op' and self.peek()[1] in CMP:
            op = self.take()[1]
            left = ('bin', op, left, self.cat())
        return left

    def cat(self):
        left = self.add()
        while self.peek() == ('op', '&'):
            self.take()
            left = ('bin', '&', left, self.add())
        return left

    def add(self):
        left = self.mul()
        while self.peek()[0] == 'op' and self.peek()[1] in '+-' and len(self.peek()[1]) == 1:
            op = self.take()[1]
            left = ('bin', op, left, self.mul())
        return left

    def mul(self):
        left = self.unary()
        while self.peek()[0] == 'op' and self.peek()[1] in ('*', '/'):
            op = self.take()[1]
            left = ('bin', op, left, self.unary())
        return left

    def unary(self):
        k, v = self.peek()
        if k == 'op' and v in ('+', '-'):
            self.take()
            x = self.unary()
            return ('neg', x) if v == '-' else ('pos', x)
        return self.postfix()

    def postfix(self):
        x = self.primary()
        while self.peek() == ('op', '%'):
            self.take()
            x = ('pct', x)
        return x

    def primary(self):
        k, v = self.take()
        if k == 'num':
            return ('num', v)
        if k == 'str':
            return ('str', v[1:-1].replace('""', '"'))
        if k == 'bool':
            return ('bool', v == 'TRUE')
        if k == 'ref':
            return ('ref', v)
        if k == 'range':
            return ('range', v)
        if k == 'func':
            self.expect_op('(')
            args = []
            if self.peek() == ('op', ')'):
                self.take()
                return ('call', v, args)
            while True:
                args.append(self.expr())
                k2, v2 = self.take()
                if k2 == 'op' and v2 == ')':
                    break
                if not (k2 == 'op' and v2 in (',', ';')):
                    raise Invalid(f'expected separator got {v2!r}')
                if TRAILING_SEP_OK.get(v) == len(args) and self.peek() == ('op', ')'):
                    self.take()   # FUNC(x,) - the omitted last argument of ROUNDUP / ROUNDDOWN
                    break
            return ('call', v, args)
        if k == 'op' and v == '(':
            x = self.expr()
            self.expect_op(')')
            return ('paren', x)
        raise Invalid(f'unexpected {v!r}')


def parse(text: str):
    if not text.startswith('='):
        raise Invalid('no leading =')
    toks = tokenize(text[1:])
    if not toks:
        raise Invalid('empty')
    p = _P(toks)
    ast = p.expr()
    if p.i != len(toks):
        raise Invalid(f'trailing tokens {toks[p.i:]}')
    return ast


# ---------------------------------------------------------------------------------------------
# text form (A.7)

def text_form(v):
    if v is None:
        return ''
    if isinstance(v, bool):
        return 'TRUE' if v else 'FALSE'
    if isinstance(v, str):
        return v
    if isinstance(v, (int, float)):
        return num_text(v)
    if isinstance(v, datetime.datetime):
        d = v - datetime.datetime(1899, 12, 30)
        if d.seconds or d.microseconds:
            raise Unspecified('date-time with a time part in text form')
        return str(d.days)
    if isinstance(v, Err):
        return v
    raise Unspecified(repr(v))


def num_text(x) -> str:
    if isinstance(x, int) or float(x).is_integer():
        if abs(x) >= 1e15:
            raise Unspecified('large number text form')
        return str(int(x))
    s = '%.15g' % x
    if 'e' in s:
        raise Unspecified('exponent text form')
    return s


# ---------------------------------------------------------------------------------------------
# evaluator

def num_literal(text: str):
    """A numeric literal denotes the double nearest its decimal text."""
    v = float(text)
    if re.fullmatch(r'\d+', text) and v < 2 ** 53:
        return int(text)
    return v


def truth(v):
    if isinstance(v, bool):
        return v
    if v is None:
        return False
    if isinstance(v, (int, float)):
        return v != 0
    if isinstance(v, Err):
        return v
    raise Unspecified('truth of text')


def to_num(v):
    if v is None:
        return 0
    if isinstance(v, bool):
        return int(v)
    if isinstance(v, (int, float)):
        return v
    if isinstance(v, Err):
        return v
    if isinstance(v, str):
        try:
            float(v)
        except ValueError:
            return Err('VALUE')
        raise Unspecified('numeric text in arithmetic')
    raise Unspecified('date in arithmetic')


def kind(v):
    if v is None:
        return 'blank'
    if isinstance(v, bool):
        return 'bool'
    if isinstance(v, (int, float)):
        return 'num'
    if isinstance(v, str):
        return 'text'
    if isinstance(v, datetime.datetime):
        return 'date'
    if isinstance(v, Err):
        return 'err'
    return 'other'


def compare(op, a, b):
    if isinstance(a, Err):
        return a
    if isinstance(b, Err):
        return b
    ka, kb = kind(a), kind(b)
    if ka == 'blank' and kb == 'num':
        a, ka = 0, 'num'
    if kb == 'blank' and ka == 'num':
        b, kb = 0, 'num'
    if ka == 'blank' and kb == 'blank':
        c = 0
    elif ka == 'num' and kb == 'num':
        from fractions import Fraction
        fa, fb = Fraction(a), Fraction(b)
        c = (fa > fb) - (fa < fb)
    elif ka == 'bool' and kb == 'bool':
        c = (a > b) - (a < b)
    elif ka == 'text' and kb == 'text':
        if a == b:
            c = 0
        elif a.lower() != b.lower() and op in ('=', '<>'):
            c = 1  # only (in)equality of texts that differ in more than case is fixed
        else:
            raise Unspecified('text order / case')
    elif ka == 'date' and kb == 'date':
        c = (a > b) - (a < b)
    else:
        raise Unspecified(f'compare {ka} {kb}')
    return {'=': c == 0, '<>': c != 0, '<': c < 0, '<=': c <= 0, '>': c > 0, '>=': c >= 0}[op]


class Env:
    """cells: dict (sheet, col_letters, row:int) -> value or formula text; own sheet name for unprefixed refs."""

    def __init__(self, cells=None, sheet='S', funcs=None):
        self.cells = cells or {}
        self.sheet = sheet
        self.funcs = funcs or {}
        self._stack = []
        self.events = set()  # semantic features met while evaluating (for finding keys)
        self.fuzzy = 0.0     # >0: comparisons of numbers closer than this (relative) are not judged (15-digit % clause)

    def get(self, sheet, col, row):
        key = (sheet, col, row)
        v = self.cells.get(key)
        if isinstance(v, str) and v.startswith('='):
            if key in self._stack:
                raise Unspecified('cycle')
            self._stack.append(key)
            try:
                return evaluate(parse(v), Env(self.cells, sheet, self.funcs))
            finally:
                self._stack.pop()
        return v


_REF = re.compile(r"^(?:(?:'((?:[^']|'')*)'|([^!']+))!)?\$?([A-Z]+)\$?(\d+)$")
_RANGE = re.compile(r"^(?:(?:'((?:[^']|'')*)'|([^!']+))!)?\$?([A-Z]+)(?:\$?(\d+))?:\$?([A-Z]+)(?:\$?(\d+))?$")


def col_num(letters):
    n = 0
    for ch in letters:
        n = n * 26 + (ord(ch) - 64)
    return n


def col_letters(n):
    s = ''
    while n > 0:
        n, r = divmod(n - 1, 26)
        s = chr(65 + r) + s
    return s


def deref(env: Env, text):
    m = _REF.match(text)
    sheet = (m.group(1).replace("''", "'") if m.group(1) is not None else m.group(2)) or env.sheet
    return env.get(sheet, m.group(3), int(m.group(4)))


def derange(env: Env, text, max_row=None):
    """Row-major matrix (list of rows) of the area."""
    m = _RANGE.match(text)
    sheet = (m.group(1).replace("''", "'") if m.group(1) is not None else m.group(2)) or env.sheet
    c1, r1, c2, r2 = col_num(m.group(3)), m.group(4), col_num(m.group(5)), m.group(6)
    if r1 is None or r2 is None:
        if max_row is None:
            rows = [k[2] for k in env.cells if k[0] == sheet]
            max_row = max(rows) if rows else 0
        r1, r2 = 1, max_row
    r1, r2 = int(r1), int(r2)
    return [[env.get(sheet, col_letters(c), r) for c in range(c1, c2 + 1)] for r in range(r1, r2 + 1)]


def evaluate(ast, env: Env):
    t = ast[0]
    if t == 'num':
        return num_literal(ast[1])
    if t == 'str':
        return ast[1]
    if t == 'bool':
        return ast[1]
    if t == 'ref':
        return deref(env, ast[1])
    if t == 'range':
        return derange(env, ast[1])
    if t == 'paren':
        return evaluate(ast[1], env)
    if t in ('neg', 'pos'):
        v = to_num(evaluate(ast[1], env))
        if isinstance(v, Err):
            return v
        return -v if t == 'neg' else v
    if t == 'pct':
        v = to_num(evaluate(ast[1], env))
        if isinstance(v, Err):
            return v
        return float('%.15g' % (v / 100))
    if t == 'bin':
        op = ast[1]
        a = evaluate(ast[2], env)
        b = evaluate(ast[3], env)
        if isinstance(a, list) or isinstance(b, list):
            raise Unspecified('array operand')
        if op in CMP:
            if env.fuzzy and kind(a) in ('num', 'blank', 'bool') and kind(b) in ('num', 'blank', 'bool'):
                x, y = to_num(a), to_num(b)
                if x != y and abs(x - y) <= env.fuzzy * max(1, abs(x), abs(y)):
                    raise Unspecified('near-tie within the 15-significant-digit clause of %')
            return compare(op, a, b)
        if op == '&':
            ta, tb = text_form(a), text_form(b)
            if isinstance(ta, Err):
                return ta
            if isinstance(tb, Err):
                return tb
            return ta + tb
        if op == '*' and (isinstance(a, str) or isinstance(b, str)):
            env.events.add('text_in_product')
        if op == '+' and isinstance(a, str) and isinstance(b, str):
            env.events.add('text_plus_text')
        a, b = to_num(a), to_num(b)
        if isinstance(a, Err):
            return a
        if isinstance(b, Err):
            return b
        if op == '+':
            return a + b
        if op == '-':
            return a - b
        if op == '*':
            return a * b
        if op == '/':
            if b == 0:
                return Err('DIV0')
            return a / b
    if t == 'call':
        f = env.funcs.get(ast[1]) or FUNCS.get(ast[1])
        if f is None:
            raise Unspecified('function ' + ast[1])
        return f(env, ast[2])
    raise Unspecified(str(ast))


# ---------------------------------------------------------------------------------------------
# functions (lazy: they receive ASTs)

def _is_err(v):
    return isinstance(v, Err)


def f_if(env, args):
    if len(args) not in (2, 3):
        raise Invalid('IF arity')
    c = truth(evaluate(args[0], env))
    if _is_err(c):
        return c
    if c:
        return evaluate(args[1], env)
    return evaluate(args[2], env) if len(args) == 3 else False


def f_ifs(env, args):
    if len(args) < 2 or len(args) % 2:
        raise Invalid('IFS arity')
    for i in range(0, len(args), 2):
        c = truth(evaluate(args[i], env))
        if _is_err(c):
            return c
        if c:
            return evaluate(args[i + 1], env)
    return Err('NA')


def f_iferror(env, args):
    if len(args) != 2:
        raise Invalid('IFERROR arity')
    v = evaluate(args[0], env)
    if _is_err(v):
        return evaluate(args[1], env)
    return v


def _flat(vals):
    for v in vals:
        if isinstance(v, list):
            yield from _flat(v)
        else:
            yield v


def _numeric_args(env, args):
    """numeric cells of areas + Num scalars; text/bool scalars unspecified."""
    out = []
    for a in args:
        v = evaluate(a, env)
        if isinstance(v, list):
            for x in _flat(v):
                if _is_err(x):
                    return x
                if isinstance(x, (int, float)) and not isinstance(x, bool):
                    out.append(x)
                elif isinstance(x, datetime.datetime):
                    raise Unspecified('date in aggregate')
        elif a[0] == 'ref':
            if _is_err(v):
                return v
            if isinstance(v, (int, float)) and not isinstance(v, bool):
                out.append(v)
            elif isinstance(v, datetime.datetime):
                raise Unspecified('date in aggregate')
        else:
            if _is_err(v):
                return v
            if isinstance(v, (int, float)) and not isinstance(v, bool):
                out.append(v)
            else:
                raise Unspecified('non-numeric scalar in aggregate')
    return out


def f_sum(env, args):
    if not args:
        raise Invalid('SUM arity')
    n = _numeric_args(env, args)
    return n if _is_err(n) else sum(n)


def f_round(env, args):
    if len(args) != 2:
        raise Invalid('ROUND arity')
    x, n = to_num(evaluate(args[0], env)), to_num(evaluate(args[1], env))
    if _is_err(x):
        return x
    if _is_err(n):
        return n
    return round_ref('ROUND', x, int(n))


def round_ref(func, x, n):
    import decimal
    mode = {'ROUND': decimal.ROUND_HALF_UP, 'ROUNDUP': decimal.ROUND_UP, 'ROUNDDOWN': decimal.ROUND_DOWN}[func]
    d = Decimal(repr(float(x))) if not isinstance(x, int) else Decimal(x)
    q = d.quantize(Decimal(1).scaleb(-n), rounding=mode)
    r = float(q)
    return int(r) if r.is_integer() and n <= 0 else r


FUNCS = {'IF': f_if, 'IFS': f_ifs, 'IFERROR': f_iferror, 'SUM': f_sum, 'ROUND': f_round}


# ---------------------------------------------------------------------------------------------
# comparing a reference value with an implementation outcome

def is_blank_obj(v):
    return v is None or type(v).__name__ == 'EmptyCell'


def same_value(ref, outcome, tol=0.0, named_errors=False, abs_tol=0.0):
    """outcome = (kind, value) from the driver.  Returns (ok, why)."""
    k, v = outcome
    if isinstance(ref, Err):
        if k.startswith('EVAL_EXC') and not named_errors:
            return True, ''
        if k == 'VALUE' and isinstance(v, str) and v.startswith('#'):
            if ref.kind == 'ANY' or not named_errors:
                return True, ''
            return (v == ERR_NAMES.get(ref.kind), 'error name')
        return False, 'expected an error value'
    if k != 'VALUE':
        return False, k
    if ref is None:
        return (is_blank_obj(v), 'expected blank')
    if isinstance(ref, bool):
        return (v is ref, 'bool')
    if isinstance(ref, (int, float)):
        if isinstance(v, bool) or not isinstance(v, (int, float)) or is_blank_obj(v):
            return False, 'expected a number'
        if v == ref:
            return True, ''
        if tol and abs(v - ref) <= tol * max(abs(ref), abs(v)):
            return True, ''
        if abs_tol and abs(v - ref) <= abs_tol:
            return True, ''
        return False, 'number differs'
    if isinstance(ref, str):
        return (type(v) is str and v == ref, 'text differs')
    if isinstance(ref, datetime.datetime):
        return (isinstance(v, datetime.datetime) and v == ref, 'date differs')
    if isinstance(ref, list):
        if not isinstance(v, list) or len(v) != len(ref):
            return False, 'list shape'
        for a, b in zip(ref, v):
            ok, why = same_value(a, ('VALUE', b), tol, named_errors)
            if not ok:
                return False, why
        return True, ''
    return False, 'unknown reference value'
