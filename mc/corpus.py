"""A corpus of valid formulas: at least one call of every supported function (several arities), over a small data block.

Data (sheet 'D'): A1:A3 = 1,2,3; B1:B3 = 4,5,6; C1 = 'abcb', C2 = 'x', C3 blank; D1..D4 dates; E1 = 2.
Formulas live in column G of the same sheet, row i+1."""
import datetime

DATA = {'A1': 1, 'A2': 2, 'A3': 3, 'B1': 4, 'B2': 5, 'B3': 6, 'C1': 'abcb', 'C2': 'x',
        'D1': datetime.datetime(2020, 1, 31), 'D2': datetime.datetime(2020, 3, 15), 'D3': datetime.datetime(2020, 2, 3),
        'D4': datetime.datetime(2020, 2, 4), 'E1': 2}

CORPUS = [
    ('ADDRESS/2', '=ADDRESS(A2,B1)'), ('ADDRESS/3', '=ADDRESS(2,3,4)'),
    ('AND', '=AND(A1>0,B1>A1)'), ('OR', '=OR(A1>B1,B1>A1,A2=2)'),
    ('AVERAGE', '=AVERAGE(A1:A3,B1)'), ('AVERAGEIFS', '=AVERAGEIFS(A1:A3,B1:B3,">4")'),
    ('COLUMN/ref', '=COLUMN(B1)'), ('COLUMN/own', '=COLUMN()'),
    ('COUNT', '=COUNT(A1:B3)'), ('COUNTBLANK', '=COUNTBLANK(A1:C3)'),
    ('COUNTIFS/1', '=COUNTIFS(A1:A3,">1")'), ('COUNTIFS/2', '=COUNTIFS(A1:A3,">1",B1:B3,"<6")'),
    ('CONCATENATE', '=CONCATENATE(A1,"x",B1)'),
    ('DAY', '=DAY(D1)'), ('MONTH', '=MONTH(D2)'), ('YEAR', '=YEAR(D1)'),
    ('DATE', '=DATE(2020,A2,B1)'), ('DATEDIF', '=DATEDIF(D1,D2,"D")'), ('EDATE', '=EDATE(D1,A1)'), ('EOMONTH', '=EOMONTH(D1,A1)'),
    ('IF/3', '=IF(A1>B1,A1,B1)'), ('IF/2', '=IF(B1>A1,A2)'), ('IFERROR', '=IFERROR(A1/C3,B2)'),
    ('IFS', '=IFS(A1>B1,1,A1<B1,2)'),
    ('INDEX/3', '=INDEX(A1:B3,2,2)'), ('INDEX/2', '=INDEX(A1:A3,2)'),
    ('LEFT/2', '=LEFT(C1,2)'), ('LEFT/1', '=LEFT(C1)'), ('RIGHT/2', '=RIGHT(C1,3)'), ('MID', '=MID(C1,2,2)'),
    ('MATCH', '=MATCH(2,A1:A3,0)'), ('XMATCH', '=XMATCH(5,B1:B3,0,1)'),
    ('MAX', '=MAX(A1:A3,B1)'), ('MIN', '=MIN(A2:A3,B1)'),
    ('NETWORKDAYS/2', '=NETWORKDAYS(D1,D2)'), ('NETWORKDAYS/3', '=NETWORKDAYS(D1,D2,D3:D4)'),
    ('ROUND', '=ROUND(B2/A3,2)'), ('ROUNDUP', '=ROUNDUP(B2/A3,1)'), ('ROUNDDOWN', '=ROUNDDOWN(B2/A3,1)'),
    ('SEARCH/2', '=SEARCH("b",C1)'), ('SEARCH/3', '=SEARCH("b",C1,3)'),
    ('SUM', '=SUM(A1:A3,B1,10)'), ('SUMIF/3', '=SUMIF(A1:A3,">1",B1:B3)'), ('SUMIF/2', '=SUMIF(A1:A3,">1")'),
    ('SUMIFS', '=SUMIFS(A1:A3,B1:B3,">4",A1:A3,"<3")'),
    ('TODAY', '=YEAR(TODAY())>2000'), ('TEXT', '=TEXT(A1,"0")'), ('VALUE', '=VALUE("12.5")'),
    ('VLOOKUP/4', '=VLOOKUP(2,A1:B3,2,0)'), ('VLOOKUP/3', '=VLOOKUP(2.5,A1:B3,2)'),
    ('OPS', '=-A1+B1*2&"|"&(A2<B2)'), ('PCT', '=A3%*B1+E1%'),
]

EXPECTED = {  # spot values used by self-tests of the corpus itself (not an oracle for the library)
    'SUM': 20, 'IF/3': 4, 'INDEX/3': 5, 'MATCH': 2, 'LEFT/2': 'ab',
}


def sheet(title='D'):
    cells = dict(DATA)
    for i, (_, f) in enumerate(CORPUS):
        cells[f'G{i + 1}'] = f
    return (title, cells)
