"""Schedule enumeration (SE) for the concurrent clause of C09: a stateless explorer with a cooperative scheduler.

Two real threads each translate one workbook through the real Parser.  Only the thread that holds the baton runs; the
baton can change hands at *scheduling points* = LINE events (sys.monitoring, local to the code objects listed in
POINT_FUNCS) of the library functions that read or write process-global state:

  BaseToken.subclasses / _remove_subclasses_lower_rank / KeywordRegexpBaseToken.subclasses   (lazy _SUBCLASSES tables)
  RecursiveCompositeBaseToken.get_token_sets                                                 (lazy _TOKEN_SETS / _PROCESSED)
  CompositeBaseToken.get, AstBuilder.parse                                                   (the per-formula parser memory _FOUND)

Reduction (sound for the property): a line of the table functions is a scheduling point only while the table of the class
it works on is not yet complete (afterwards the function only reads immutable data, and reads commute); in CompositeBaseToken.get
and AstBuilder.parse only the lines that touch _FOUND are points.

Before every execution the token tables are put back into their cold state (checked once per worker against a freshly
started interpreter).  Exploration = iterative preemption bounding: all executions with 0 preemptions (either thread
first), then every single preemption point, then every pair.  Oracle: both texts equal the sequential baselines, no
exception, no hang.
"""
from __future__ import annotations

import json
import os
import subprocess
import sys
import threading

from mc import driver as D

TOOL = 3
HANG_S = 20.0


def _allsub(c):
    out = []
    for s in c.__subclasses__():
        out.append(s)
        out += _allsub(s)
    return out


def token_classes():
    from excel2pycl.src.tokens.base_token import BaseToken
    import excel2pycl.src.tokens  # noqa  (defines every token class)
    import excel2pycl.src.lexer  # noqa  (initialises the regexp tables at import, as every user of the library does)
    seen, out = set(), []
    for c in [BaseToken] + _allsub(BaseToken):
        if c not in seen:
            seen.add(c)
            out.append(c)
    return out


def table_state():
    """Name-based description of the lazily built tables (comparable across processes)."""
    out = {}
    for c in token_classes():
        d = c.__dict__
        ts = d.get('_TOKEN_SETS')
        out[c.__module__ + '.' + c.__name__] = {
            'sub': [x.__name__ for x in d['_SUBCLASSES']] if '_SUBCLASSES' in d else None,
            'proc': d.get('_PROCESSED'),
            'sets': [[t if isinstance(t, str) else t.__name__ for t in s] for s in ts] if ts is not None else None,
        }
    return out


def reset_cold():
    """Put the lazily built tables back to what a freshly imported library holds."""
    from excel2pycl.src.tokens.composite_base_token import CompositeBaseToken
    from excel2pycl.src.tokens.recursive_composite_base_token import RecursiveCompositeBaseToken, CLS
    for c in token_classes():
        if issubclass(c, CompositeBaseToken):
            if '_SUBCLASSES' in c.__dict__:
                delattr(c, '_SUBCLASSES')
            if issubclass(c, RecursiveCompositeBaseToken) and c is not RecursiveCompositeBaseToken:
                if c.__dict__.get('_PROCESSED'):
                    c._TOKEN_SETS = [[CLS if t is c else t for t in s] for s in c.__dict__['_TOKEN_SETS']]
                    delattr(c, '_PROCESSED')
    CompositeBaseToken._FOUND.clear() if hasattr(CompositeBaseToken, '_FOUND') else None


def cold_state_of_fresh_interpreter():
    env = dict(os.environ)
    root = os.path.dirname(os.path.dirname(os.path.abspath(__file__)))
    p = subprocess.run([sys.executable, '-W', 'ignore', '-m', 'mc.sched', 'cold'], capture_output=True, text=True, cwd=root, env=env,
                       timeout=120)
    if p.returncode != 0:
        raise RuntimeError('cold-state subprocess failed: ' + p.stderr[-1500:])
    return json.loads(p.stdout.strip().splitlines()[-1])


# ---------------------------------------------------------------------------------------------
# scheduling points

def _funcs():
    from excel2pycl.src.tokens.base_token import BaseToken
    from excel2pycl.src.tokens.regexp_base_token import KeywordRegexpBaseToken
    from excel2pycl.src.tokens.composite_base_token import CompositeBaseToken
    from excel2pycl.src.tokens.recursive_composite_base_token import RecursiveCompositeBaseToken
    from excel2pycl.src.ast_builder import AstBuilder
    table = [BaseToken.__dict__['subclasses'].__func__, BaseToken.__dict__['_remove_subclasses_lower_rank'],
             KeywordRegexpBaseToken.__dict__['subclasses'].__func__, RecursiveCompositeBaseToken.__dict__['get_token_sets'].__func__]
    memo = [CompositeBaseToken.__dict__['get'].__func__, AstBuilder.__dict__['parse'].__func__]
    return table, memo


def _memo_lines(func):
    """line numbers of the function that mention the shared parser memory"""
    import inspect
    src, start = inspect.getsourcelines(func)
    return {start + i for i, line in enumerate(src) if '_FOUND' in line}


class Scheduler:
    def __init__(self, jobs, first, switch_at):
        self.jobs = jobs
        self.switch_at = set(switch_at)
        self.first = first
        self.sem = [threading.Semaphore(0), threading.Semaphore(0)]
        self.done = [False, False]
        self.count = 0
        self.preemptions = 0
        self.tid_of = {}
        self.results = [None, None]
        self.initialising = 0
        self.hang = False
        self.points_where = []

    @staticmethod
    def _uninitialised(cls_=None, code_name=None):
        """Is the lazily built table that this line works on still incomplete?  (a table is complete once its last write
        has happened: UndefinedToken is appended last, _PROCESSED is set last, the keyword table is assigned at once)"""
        from excel2pycl.src.tokens.undefined_token import UndefinedToken
        if code_name == '_remove_subclasses_lower_rank' or cls_ is None:
            return True   # runs only while some table is being built
        if code_name == 'get_token_sets':
            return not cls_.__dict__.get('_PROCESSED')
        own = cls_.__dict__.get('_SUBCLASSES')
        if not own:
            return True
        from excel2pycl.src.tokens.regexp_base_token import KeywordRegexpBaseToken
        if isinstance(cls_, type) and issubclass(cls_, KeywordRegexpBaseToken):
            return False
        return UndefinedToken not in own

    def on_line(self, code, line, frame=None):
        me = self.tid_of.get(threading.get_ident())
        if me is None:
            return None
        if code in _MEMO_CODES:
            if line not in _MEMO_LINES[code]:
                return None
        else:
            cls_ = frame.f_locals.get('cls') if frame is not None and frame.f_code is code else None
            if not self._uninitialised(cls_, code.co_name):
                return None
        k = self.count
        self.count += 1
        if k in self.switch_at:
            other = 1 - me
            if not self.done[other]:
                self.preemptions += 1
                self.points_where.append((k, code.co_name, line))
                self.sem[other].release()
                if not self.sem[me].acquire(timeout=HANG_S):
                    self.hang = True
        return None

    def _body(self, me):
        self.tid_of[threading.get_ident()] = me
        if not self.sem[me].acquire(timeout=HANG_S):
            self.hang = True
            return
        try:
            p = D.Parser().disable_safety_check().set_excel_file_path(self.jobs[me])
            self.results[me] = ('TEXT', p.get_translation())
        except BaseException as e:  # noqa
            self.results[me] = ('EXC:' + type(e).__name__, str(e)[:200])
        finally:
            self.done[me] = True
            self.tid_of.pop(threading.get_ident(), None)
            self.sem[1 - me].release()

    def run(self):
        ts = [threading.Thread(target=self._body, args=(i,), daemon=True) for i in (0, 1)]
        for t in ts:
            t.start()
        self.sem[self.first].release()
        for t in ts:
            t.join(HANG_S * 2)
            if t.is_alive():
                self.hang = True
        return self


_INSTALLED = False
_MEMO_CODES = set()
_MEMO_LINES = {}
_RECURSIVE = []
_CURRENT = [None]


def install():
    global _INSTALLED
    if _INSTALLED:
        return
    from excel2pycl.src.tokens.recursive_composite_base_token import RecursiveCompositeBaseToken
    table, memo = _funcs()
    mon = sys.monitoring
    mon.use_tool_id(TOOL, 'mc-sched')
    for f in table + memo:
        mon.set_local_events(TOOL, f.__code__, mon.events.LINE)
    for f in memo:
        _MEMO_CODES.add(f.__code__)
        _MEMO_LINES[f.__code__] = _memo_lines(f)
    _RECURSIVE.extend(c for c in token_classes() if issubclass(c, RecursiveCompositeBaseToken) and c is not RecursiveCompositeBaseToken)

    def cb(code, line):
        s = _CURRENT[0]
        if s is not None:
            return s.on_line(code, line, sys._getframe(1))
        return None
    mon.register_callback(TOOL, mon.events.LINE, cb)
    _INSTALLED = True


def execute(jobs, first, switch_at, cold=True):
    """One execution from cold tables (or, cold=False, from tables that a completed translation has left behind: then
    only the accesses to the parser memory are scheduling points).  jobs: two workbook file objects/paths."""
    install()
    if cold:
        reset_cold()
    else:
        # warm tables: let ordinary translations of both workbooks build everything they need first
        for j in jobs:
            j.seek(0) if hasattr(j, 'seek') else None
            D.Parser().disable_safety_check().set_excel_file_path(j).get_translation()
            j.seek(0) if hasattr(j, 'seek') else None
    for j in jobs:
        if hasattr(j, 'seek'):
            j.seek(0)
    s = Scheduler(jobs, first, switch_at)
    _CURRENT[0] = s
    try:
        s.run()
    finally:
        _CURRENT[0] = None
    return s


if __name__ == '__main__':
    if sys.argv[1] == 'cold':
        print(json.dumps(table_state()))


# ---------------------------------------------------------------------------------------------
# inventory of process-global state touched by a translation (justifies the choice of scheduling points)

def _snapshot_globals():
    """(module or class qualified name, attribute) -> structural fingerprint, for every module-level and class-level
    attribute of excel2pycl.* that holds a mutable container."""
    import types
    out = {}

    def fp(v, depth=0):
        if isinstance(v, (list, tuple)):
            return (type(v).__name__, len(v), tuple(fp(x, depth + 1) for x in v[:50]) if depth < 2 else None)
        if isinstance(v, dict):
            return ('dict', len(v), tuple(sorted(repr(k)[:40] for k in list(v)[:50])))
        if isinstance(v, set):
            return ('set', len(v))
        if isinstance(v, type):
            return ('class', v.__name__)
        return (type(v).__name__, repr(v)[:60] if isinstance(v, (int, str, bool, float, type(None))) else id(v))

    for mname, mod in list(sys.modules.items()):
        if not mname.startswith('excel2pycl') or mod is None:
            continue
        for k, v in list(vars(mod).items()):
            if k.startswith('__'):
                continue
            if isinstance(v, (list, dict, set)):
                out[(mname, k)] = fp(v)
            if isinstance(v, type) and v.__module__ == mname:
                for ck, cv in list(vars(v).items()):
                    if ck.startswith('__'):
                        continue
                    if isinstance(cv, (list, dict, set, bool, int, str, type(None))):
                        out[(mname + '.' + v.__name__, ck)] = fp(cv)
    return out


def inventory():
    """Run in a FRESH interpreter: which global attributes differ after one translation, and which after a second
    translation of another workbook compared with the first."""
    from mc import corpus
    import importlib
    import excel2pycl
    token_classes()
    # lazily imported translators would look like changes: import every module of the package first
    root = os.path.dirname(os.path.abspath(excel2pycl.__file__))
    for dirpath, _, files in os.walk(root):
        for f in files:
            if f.endswith('.py') and f != '__init__.py':
                rel = os.path.relpath(os.path.join(dirpath, f[:-3]), os.path.dirname(root))
                importlib.import_module(rel.replace(os.sep, '.'))
    before = _snapshot_globals()
    D.translate([corpus.sheet('D')])
    after1 = _snapshot_globals()
    D.translate([('S', {'A1': 1, 'B1': '=IF(A1>0,SUM(A1,2),"x")&TEXT(A1,"0")'}), ('T', {'A1': '=S!B1'})])
    after2 = _snapshot_globals()
    ch1 = sorted(f'{a}.{b}' for (a, b) in after1 if before.get((a, b)) != after1[(a, b)])
    ch2 = sorted(f'{a}.{b}' for (a, b) in after2 if after1.get((a, b)) != after2[(a, b)])
    return {'changed_by_first_translation': ch1, 'changed_by_second_translation': ch2}


if __name__ == '__main__' and len(sys.argv) > 1 and sys.argv[1] == 'inventory':
    print(json.dumps(inventory()))
