"""Known-findings file: read-only at run time.

finding: property=C12 key={json} witness=<path or -> :: <what fails>
fixed: property=C04 <commit> <what failed>

A key is a JSON object over descriptor fields (the descriptor always carries 'outcome'):
  scalar          -> equality
  list            -> descriptor value (or every element of a list-valued field) is in the list
  {"has": [...]}  -> list-valued descriptor field contains all of these
  {"any": [...]}  -> list-valued descriptor field contains at least one of these
  {"min": n} / {"max": n} -> numeric bound (used for depth only)
"""
import json
import os
import re

HERE = os.path.dirname(os.path.dirname(os.path.abspath(__file__)))
PATH = os.path.join(HERE, 'KNOWN_FINDINGS.txt')

_LINE = re.compile(r'^finding:\s+property=(C\d+)\s+key=(\{.*\})\s+witness=(\S+)\s+::\s+(.*)$')
_FIXED = re.compile(r'^fixed:\s+property=(C\d+)\s+(\S+)\s+(.*)$')


def load(path=PATH):
    findings, fixed = [], []
    if not os.path.exists(path):
        return findings, fixed
    for n, line in enumerate(open(path, encoding='utf-8'), 1):
        line = line.strip()
        if not line or line.startswith('#'):
            continue
        m = _LINE.match(line)
        if m:
            findings.append({'property': m.group(1), 'key': json.loads(m.group(2)), 'witness': m.group(3),
                             'text': m.group(4), 'line': n})
            continue
        m = _FIXED.match(line)
        if m:
            fixed.append({'property': m.group(1), 'commit': m.group(2), 'text': m.group(3)})
            continue
        raise ValueError(f'{path}:{n}: unparsable line')
    return findings, fixed


def _match_field(want, have):
    if isinstance(want, dict):
        hv = have if isinstance(have, list) else [have]
        if 'has' in want and not all(x in hv for x in want['has']):
            return False
        if 'any' in want and not any(x in hv for x in want['any']):
            return False
        if 'min' in want and not (isinstance(have, (int, float)) and have >= want['min']):
            return False
        if 'max' in want and not (isinstance(have, (int, float)) and have <= want['max']):
            return False
        return True
    if isinstance(want, list):
        if isinstance(have, list):
            return all(x in want for x in have)
        return have in want
    return want == have


def matches(key: dict, desc: dict) -> bool:
    for f, want in key.items():
        if f not in desc:
            return False
        if not _match_field(want, desc[f]):
            return False
    return True


def find(findings, prop, desc):
    for f in findings:
        if f['property'] == prop and matches(f['key'], desc):
            return f
    return None
