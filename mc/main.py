"""CLI: ./check <Cxx> [--tier quick|thorough] [--replay FILE] [--jobs N]

A property module (mc/props/cNN.py) defines
  PROP, RULE, ASSUMPTIONS, LEVEL_TEXT (optional)
  plan(tier, seed) -> list of phases; a phase is a dict
      name      : str
      cases     : iterable of JSON-able case objects (complete enumeration, deterministic order)
      runner    : name of a module-level function runner(cases: list, stats: Counter) -> list of violations
      chunk     : cases per task (default 200)
      serial    : True -> run in the parent process (phases that spawn their own processes)
  a violation is {'i': index in the chunk, 'desc': flat descriptor incl. 'outcome', 'expected':…, 'observed':…}

stats keys understood by the evidence writer: cases (added automatically), transitions, validated,
evaluations, nontrivial, 'out:<label>' (distinct observed outcomes), capped.
"""
from __future__ import annotations

import argparse
import collections
import hashlib
import importlib
import itertools
import json
import multiprocessing as mp
import os
import sys
import time
import traceback

HERE = os.path.dirname(os.path.dirname(os.path.abspath(__file__)))
sys.path.insert(0, HERE)

from mc import findings as F  # noqa: E402

MAX_REPLAYS = 40


def _load(prop):
    return importlib.import_module('mc.props.' + prop.lower())


def _task(args):
    prop, runner, chunk, start = args
    mod = _load(prop)
    stats = collections.Counter()
    t = time.time()
    try:
        vio = getattr(mod, runner)(chunk, stats)
    except BaseException as e:  # harness failure is never silently a pass
        if isinstance(e, KeyboardInterrupt):
            raise
        from mc import sweep
        if isinstance(e, sweep.SweepError):
            # the fixed workbook of a value sweep consists of corpus-style valid formulas: if the library refuses it (or
            # emits text that does not load), that is an observation about the library, reported like any other
            vio = [{'i': 0, 'desc': {'func': 'workbook', 'clause': 'scaffold', 'outcome': 'SCAFFOLD'}, 'expected': 'the fixed workbook of this phase translates and loads',
                    'observed': str(e)[:400], 'noconfirm': True}]
        else:
            return start, None, dict(stats), traceback.format_exc(), time.time() - t
    for v in vio:
        v['case'] = chunk[v['i']]
    return start, vio, dict(stats), None, time.time() - t


def _chunks(it, n):
    it = iter(it)
    start = 0
    while True:
        c = list(itertools.islice(it, n))
        if not c:
            return
        yield start, c
        start += len(c)


def _sig(desc):
    return json.dumps(desc, sort_keys=True, default=str)


def run_property(prop, tier, seed, jobs, deadline_s=None):
    mod = _load(prop)
    t0 = time.time()
    stats = collections.Counter()
    phases_info = []
    samples = []
    all_vio = []  # (phase, violation)
    harness_errors = []
    capped = False
    pool = mp.get_context('fork').Pool(jobs) if jobs > 1 else None
    try:
        for ph in mod.plan(tier, seed):
            pt = time.time()
            name, runner, chunk = ph['name'], ph['runner'], ph.get('chunk', 200)
            n_cases = 0
            first = last = None
            keep = ph.get('samples', 2)
            tasks = ((prop, runner, c, s) for s, c in _chunks(ph['cases'], chunk))

            def note(c):
                nonlocal first, last, n_cases
                if first is None:
                    first = c[0]
                last = c[-1]
                n_cases += len(c)

            def gen():
                for t in tasks:
                    note(t[2])
                    yield t

            if pool is None or ph.get('serial'):
                results = map(_task, gen())
            else:
                results = pool.imap_unordered(_task, gen())
            pstats = collections.Counter()
            for start, vio, st, err, dt in results:
                pstats.update(st)
                if err:
                    harness_errors.append((name, start, err))
                    continue
                for v in vio:
                    all_vio.append((name, runner, v))
                if deadline_s and time.time() - t0 > deadline_s:
                    capped = True
                    break
            stats.update(pstats)
            stats['cases'] += n_cases
            phases_info.append({'phase': name, 'cases': n_cases, 'wall_s': round(time.time() - pt, 2),
                                **{k: v for k, v in pstats.items() if not k.startswith('out:')}})
            if first is not None and keep:
                samples.append({'phase': name, 'case': first})
                if keep > 1 and last is not first:
                    samples.append({'phase': name, 'case': last})
            if capped:
                break
    finally:
        if pool is not None:
            pool.terminate()
            pool.join()
    return mod, stats, phases_info, samples, all_vio, harness_errors, capped, time.time() - t0


def confirm(mod, runner, v):
    """Re-execute the single case in this process; the same descriptor must fail again."""
    st = collections.Counter()
    try:
        again = getattr(mod, runner)([v['case']], st)
    except Exception:
        return False
    want = _sig(v['desc'])
    return any(_sig(a['desc']) == want for a in again)


def write_replay(prop, phase, runner, v):
    payload = {'property': prop, 'phase': phase, 'runner': runner, 'case': v['case'], 'descriptor': v['desc'],
               'expected': v.get('expected'), 'observed': v.get('observed')}
    blob = json.dumps(payload, sort_keys=True, default=str, ensure_ascii=False)
    sha = hashlib.sha256(blob.encode('utf-8', 'backslashreplace')).hexdigest()[:12]
    d = os.path.join(os.environ.get('VERIF_REPLAY_DIR') or os.path.join(HERE, 'replays'), prop)
    os.makedirs(d, exist_ok=True)
    path = os.path.join(d, sha + '.json')
    with open(path, 'w', encoding='utf-8', errors='backslashreplace') as f:
        f.write(json.dumps(payload, indent=1, sort_keys=True, default=str, ensure_ascii=False))
    return path


def do_replay(path):
    payload = json.load(open(path, encoding='utf-8'))
    prop = payload['property']
    mod = _load(prop)
    known, _ = F.load()
    outs = []
    for _ in range(2):
        st = collections.Counter()
        vio = getattr(mod, payload['runner'])([payload['case']], st)
        outs.append(sorted(_sig(v['desc']) for v in vio))
    if outs[0] != outs[1]:
        print(f'NONDETERMINISTIC replay of {path}: {outs[0]} vs {outs[1]}')
        return 2
    st = collections.Counter()
    vio = getattr(mod, payload['runner'])([payload['case']], st)
    bad = 0
    for v in vio:
        f = F.find(known, prop, v['desc'])
        if f:
            print(f"KNOWN-FINDING: property={prop} {f['text']}")
        else:
            bad += 1
            print(json.dumps({'descriptor': v['desc'], 'expected': v.get('expected'), 'observed': v.get('observed')},
                             default=str, ensure_ascii=False))
            print(f'VIOLATION property={prop} replay={path}')
    if not vio:
        print(f'replay {path}: no violation (case passes)')
    return 1 if bad else 0


def main(argv=None):
    ap = argparse.ArgumentParser()
    ap.add_argument('prop')
    ap.add_argument('--tier', default=os.environ.get('VERIF_TIER') or 'quick', choices=['quick', 'thorough'])
    ap.add_argument('--replay')
    ap.add_argument('--jobs', type=int, default=int(os.environ.get('VERIF_JOBS', '0')) or min(16, os.cpu_count() or 1))
    ap.add_argument('--no-evidence', action='store_true')
    ap.add_argument('--write-witness', action='store_true',
                    help='(maintenance) write the first case matching each listed finding to its witness file')
    a = ap.parse_args(argv)
    for stream in (sys.stdout, sys.stderr):
        try:
            stream.reconfigure(errors='backslashreplace')  # cases may hold lone surrogates and other unencodable text
        except Exception:  # noqa
            pass
    prop = a.prop.upper()
    try:
        seed = int(os.environ.get('VERIF_SEED', '0') or 0)
    except ValueError:
        seed = 0
    if a.replay:
        return do_replay(a.replay)

    mod, stats, phases_info, samples, all_vio, herr, capped, wall = run_property(prop, a.tier, seed, a.jobs)
    known, fixed = F.load()
    mine = [f for f in known if f['property'] == prop]
    matched = collections.Counter()
    unmatched = collections.OrderedDict()  # signature -> (phase, runner, v, count)
    for phase, runner, v in all_vio:
        f = F.find(known, prop, v['desc'])
        if f:
            matched[f['line']] += 1
            if a.write_witness and matched[f['line']] == 1 and f['witness'] != '-':
                wp = os.path.join(HERE, f['witness'])
                os.makedirs(os.path.dirname(wp), exist_ok=True)
                with open(wp, 'w', encoding='utf-8') as fh:
                    json.dump({'property': prop, 'phase': phase, 'runner': runner, 'case': v['case'],
                               'descriptor': v['desc'], 'expected': v.get('expected'), 'observed': v.get('observed'),
                               'finding': f['text']}, fh, indent=1, sort_keys=True, default=str, ensure_ascii=False)
        else:
            s = _sig(v['desc'])
            if s in unmatched:
                unmatched[s][3] += 1
            else:
                unmatched[s] = [phase, runner, v, 1]

    rc = 0
    reported = 0
    unreproduced = 0
    for s, (phase, runner, v, cnt) in unmatched.items():
        if reported >= MAX_REPLAYS:
            break
        if not v.get('noconfirm') and not confirm(mod, runner, v):
            # batch-only or flaky: try once more inside its original neighbourhood is not possible here;
            # report it as unreproduced (still a violation: the run observed it)
            unreproduced += 1
            v['desc'] = dict(v['desc'], unreproduced_alone=True)
        path = write_replay(prop, phase, runner, v)
        print(json.dumps({'phase': phase, 'descriptor': v['desc'], 'expected': v.get('expected'),
                          'observed': v.get('observed'), 'cases_with_this_descriptor': cnt},
                         default=str, ensure_ascii=False)[:1500])
        print(f'VIOLATION property={prop} replay={os.path.relpath(path, HERE)}')
        reported += 1
        rc = 1
    for f in mine:
        print(f"KNOWN-FINDING: property={prop} {f['text']} [cases matched this run: {matched.get(f['line'], 0)}]")
    for name, start, err in herr:
        print(f'HARNESS-ERROR phase={name} chunk@{start}\n{err}', file=sys.stderr)
        rc = rc or 3

    outcomes = sorted(k[4:] for k in stats if k.startswith('out:'))
    n_unmatched = sum(x[3] for x in unmatched.values())
    cov = {
        'states': int(stats['cases']),
        'transitions': int(stats.get('transitions', 0) or stats.get('evaluations', 0) or stats['cases']),
        'traces_validated_against_impl': int(stats.get('validated', 0)),
        'evaluations': int(stats.get('evaluations', 0) or stats['cases']),
        'distinct_nontrivial': int(stats.get('nontrivial', 0)),
        'distinct_outcomes': len(outcomes),
        'outcome_histogram': {k[4:]: int(v) for k, v in sorted(stats.items()) if k.startswith('out:')},
        'rule': getattr(mod, 'RULE', ''),
        'exhaustive': not capped and not stats.get('capped', 0),
        'phases': phases_info,
        'samples': samples[:12] or [{'note': 'no cases'}],
        'known_findings_matched': {str(f['line']): int(matched.get(f['line'], 0)) for f in mine},
        'violations_unlisted': int(n_unmatched),
        'unreproduced_alone': int(unreproduced),
        'harness_errors': len(herr),
        'jobs': a.jobs,
        'repo': _repo_id(),
    }
    for k, v in stats.items():
        if k.startswith('x:'):
            cov[k[2:]] = int(v)
    ev = {
        'property_id': prop, 'tier': a.tier, 'seed': seed, 'level': 'model_checking', 'coverage': cov,
        'assumptions': list(getattr(mod, 'ASSUMPTIONS', [])), 'wall_s': round(wall, 2), 'violations': int(n_unmatched),
    }
    if not a.no_evidence:
        os.makedirs(os.path.join(HERE, 'evidence'), exist_ok=True)
        with open(os.path.join(HERE, 'evidence', prop + '.json'), 'w', encoding='utf-8', errors='backslashreplace') as f:
            json.dump(ev, f, indent=1, sort_keys=True, default=str, ensure_ascii=False)
    print(f"{prop} tier={a.tier} cases={cov['states']} transitions={cov['transitions']} validated="
          f"{cov['traces_validated_against_impl']} nontrivial={cov['distinct_nontrivial']} outcomes={len(outcomes)} "
          f"known={sum(matched.values())} unlisted={n_unmatched} wall={wall:.1f}s exhaustive={cov['exhaustive']}")
    return rc


def _repo_id():
    try:
        from mc import driver
        import subprocess
        root = driver.repo_root()
        head = subprocess.run(['git', '-C', root, 'rev-parse', '--short', 'HEAD'], capture_output=True, text=True).stdout.strip()
        dirty = subprocess.run(['git', '-C', root, 'status', '--porcelain', '--untracked-files=no'], capture_output=True,
                               text=True).stdout.strip()
        return {'root': root, 'head': head, 'dirty': bool(dirty)}
    except Exception:
        return {}


def _main_with_scratch():
    # every scratch file of a run (workbooks written by C06 / C09, outputs of translations) lives in one directory
    # that the parent removes at the end: forked pool workers leave through os._exit and never run their atexit hooks
    import shutil
    import tempfile
    scratch = tempfile.mkdtemp(prefix='verif-run-')
    tempfile.tempdir = scratch
    os.environ['TMPDIR'] = scratch
    try:
        return main()
    finally:
        shutil.rmtree(scratch, ignore_errors=True)


if __name__ == '__main__':
    sys.exit(_main_with_scratch())
