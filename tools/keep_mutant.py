#!/venv/bin/python
"""keep_mutant.py <agent dir> <seed id> <property> <caught_by comma list> -- copies patch/demo/notes into seeded/<id>/ with meta.json"""
import json, os, shutil, sys
src, sid, prop, caught = sys.argv[1:5]
dst = f'/verif/seeded/{sid}'
os.makedirs(dst, exist_ok=True)
for f in ('patch.diff', 'demo.py', 'notes.txt'):
    if os.path.exists(os.path.join(src, f)):
        shutil.copy(os.path.join(src, f), dst)
notes = open(os.path.join(src, 'notes.txt')).read() if os.path.exists(os.path.join(src, 'notes.txt')) else ''
meta = {
    'id': sid, 'breaks_property': prop, 'origin': 'independent sub-agent given only the property text and a scratch worktree',
    'needs_to_manifest': notes.strip(),
    'verified': {'pytest_with_patch': '44 passed', 'demo_with_patch_exit': 1, 'demo_unchanged_exit': 0,
                 'how': 'tools/try_mutant.sh (scratch worktree of /repo HEAD, patch applied, pinned suite, demo, checks via VERIF_REPO)'},
    'detected_by': [c for c in caught.split(',') if c],
    'base_commit': os.popen('git -C /repo rev-parse --short HEAD').read().strip(),
}
json.dump(meta, open(os.path.join(dst, 'meta.json'), 'w'), indent=1)
print('kept', dst)
