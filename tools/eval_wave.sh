#!/bin/bash
# usage: tools/eval_wave.sh Cxx [Cyy ...]  -- runs every /tmp/agent-<P>/m<k> against the quick check of <P>; a change that
# is missed there is then run against the other checks (CROSS: default = the cheap ones; CROSS=all for all 20).
# One summary line per change on stdout, logs in /tmp/wave-logs/.  SKIP="C01/m1 C06/m1" skips changes already evaluated.
mkdir -p /tmp/wave-logs
if [ "${CROSS:-light}" = all ]; then ALL=$(for i in $(seq -w 1 20); do echo -n "C$i "; done)
else ALL="C01 C02 C05 C08 C10 C11 C13 C14 C16 C17 C18 C20"; fi
for p in "$@"; do
  for d in /tmp/agent-$p/m[0-9]*; do
    [ -f "$d/patch.diff" ] || continue
    k=$(basename "$d"); log=/tmp/wave-logs/$p-$k.log
    case " ${SKIP:-} " in *" $p/$k "*) continue;; esac
    /verif/tools/try_mutant.sh "$d" "$p" > "$log" 2>&1
    own=$(grep -c "^check $p: exit=1" "$log")
    pre=$(grep -E "^pytest|^demo|PATCH-DOES" "$log" | tr '\n' ' ')
    if [ "$own" = 1 ]; then echo "$p/$k DETECTED by $p | $pre"; continue; fi
    others=$(echo $ALL | tr ' ' '\n' | grep -v "^$p$" | tr '\n' ' ')
    /verif/tools/try_mutant.sh "$d" $others > "$log.all" 2>&1
    by=$(grep -E "^check C[0-9]+: exit=1" "$log.all" | sed 's/^check \(C[0-9]*\):.*/\1/' | tr '\n' ',')
    echo "$p/$k MISSED by $p; others(${CROSS:-light}): ${by:-none} | $pre"
  done
done
