#!/bin/bash
# usage: tools/eval_wave.sh Cxx [Cyy ...]  -- runs every /tmp/agent-<P>/m<k> against the quick check of <P>; a change that
# is missed there is then run against all 20 checks.  One summary line per change on stdout, logs in /tmp/wave-logs/.
mkdir -p /tmp/wave-logs
ALL=$(for i in $(seq -w 1 20); do echo -n "C$i "; done)
for p in "$@"; do
  for d in /tmp/agent-$p/m[0-9]*; do
    [ -f "$d/patch.diff" ] || continue
    k=$(basename "$d"); log=/tmp/wave-logs/$p-$k.log
    /verif/tools/try_mutant.sh "$d" "$p" > "$log" 2>&1
    own=$(grep -c "^check $p: exit=1" "$log")
    pre=$(grep -E "^pytest|^demo|PATCH-DOES" "$log" | tr '\n' ' ')
    if [ "$own" = 1 ]; then echo "$p/$k DETECTED by $p | $pre"; continue; fi
    /verif/tools/try_mutant.sh "$d" $ALL > "$log.all" 2>&1
    by=$(grep -E "^check C[0-9]+: exit=1" "$log.all" | sed 's/^check \(C[0-9]*\):.*/\1/' | tr '\n' ',')
    echo "$p/$k MISSED by $p; others: ${by:-none} | $pre"
  done
done
