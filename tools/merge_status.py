#!/venv/bin/python
"""Rebuilds seeded/STATUS.md from the logs of several tools/run_seeded.py runs (later logs win).
usage: merge_status.py LOG [LOG ...]"""
import json, os, subprocess, sys
rows = {}
for path in sys.argv[1:]:
    for l in open(path):
        try:
            d = json.loads(l)
        except Exception:
            continue
        if isinstance(d, dict) and 'id' in d:
            rows[d['id']] = d
root = os.path.dirname(os.path.dirname(os.path.abspath(__file__)))
ids = sorted(i for i in os.listdir(os.path.join(root, 'seeded')) if os.path.isdir(os.path.join(root, 'seeded', i)))
head = subprocess.run('git -C /repo rev-parse --short HEAD', shell=True, capture_output=True, text=True).stdout.strip()
missing = [i for i in ids if i not in rows]
with open(os.path.join(root, 'seeded', 'STATUS.md'), 'w') as f:
    f.write(f'# Seeded changes re-validated against /repo (last run at {head}; see DESIGN.md section 8)\n\n')
    f.write('| id | breaks | patch applies | pinned suite | demo exit (patched/unchanged) | checks (quick tier) |\n|---|---|---|---|---|---|\n')
    for i in ids:
        r = rows.get(i)
        if not r:
            f.write(f'| {i} | - | not run | - | - | - |\n')
            continue
        st = json.load(open(os.path.join(root, 'seeded', i, 'meta.json'))).get('status')
        ap = r.get('apply', '-') + (f' ({st})' if st else '')
        f.write(f"| {i} | {r.get('prop')} | {ap} | {r.get('pytest', '-')} | {r.get('demo', '-')} | "
                + ', '.join(f'{c}: {v}' for c, v in (r.get('checks') or {}).items()) + ' |\n' if r.get('checks') else f"| {i} | {r.get('prop')} | {ap} | - | - | - |\n")
print('rows', len(ids), 'missing', missing)
