#!/venv/bin/python
"""Apply one old->new replacement to both copies of the runtime (template text gets braces doubled).
usage: patch_both.py OLD_FILE NEW_FILE   (texts as they read in abstract_excel_in_python_class.py)"""
import sys
old, new = open(sys.argv[1], encoding='utf-8').read(), open(sys.argv[2], encoding='utf-8').read()
def dbl(s): return s.replace('{', '{{').replace('}', '}}')
for path, f in (('/repo/excel2pycl/src/utilities/abstract_excel_in_python_class.py', lambda s: s),
                ('/repo/excel2pycl/src/context.py', dbl)):
    s = open(path, encoding='utf-8').read()
    o, n = f(old), f(new)
    if s.count(o) != 1:
        sys.exit(f'{path}: old text found {s.count(o)} times')
    open(path, 'w', encoding='utf-8').write(s.replace(o, n))
print('patched both')
