#!/venv/bin/python
"""Prints the table of section 5.1 of DESIGN.md from evidence/*.json (quick) and a log of a thorough run
(lines 'rc=0 <n>s Cxx tier=thorough cases=.. transitions=.. ... wall=..s ...')."""
import json, re, sys
th = {}
for path in sys.argv[1:]:
    for l in open(path):
        m = re.search(r'rc=(\d+) (\d+)s (C\d\d) tier=thorough cases=(\d+) transitions=(\d+)', l)
        if m:
            th[m.group(3)] = (int(m.group(4)), int(m.group(5)), int(m.group(2)), m.group(1))


def h(n):
    return f'{n / 1e6:.2f} M' if n >= 1e6 else (f'{n / 1e3:.1f} k' if n >= 1e4 else str(n))


print('| id | quick: cases / executions / wall | thorough: cases / executions / wall |')
print('|----|----------------------------------|-------------------------------------|')
for i in range(1, 21):
    p = f'C{i:02d}'
    e = json.load(open(f'/verif/evidence/{p}.json'))
    c = e['coverage']
    q = f"{h(c.get('states', 0))} / {h(c.get('transitions', 0))} / {e.get('wall_s', 0):.0f} s"
    t = th.get(p)
    print(f'| {p} | {q} | ' + (f'{h(t[0])} / {h(t[1])} / {t[2]} s' if t else '-') + ' |')
