#!/opt/veriftools/pyvenv/bin/python
"""Validates MANIFEST.json and every evidence file against the schemas (run with python3-vt)."""
import json, sys, glob, jsonschema
ok = True
m = json.load(open('/verif/MANIFEST.json'))
jsonschema.validate(m, json.load(open('/root/.vp/MANIFEST.schema.json')))
es = json.load(open('/root/.vp/EVIDENCE.schema.json'))
for c in m['checks']:
    try:
        e = json.load(open(c['evidence_file']))
        jsonschema.validate(e, es)
        assert e['property_id'] == c['property_id']
        cov = e['coverage']
        assert cov['states'] >= 1 and cov['transitions'] >= 1 and cov['samples'], 'mc keys'
    except Exception as x:
        ok = False
        print('BAD', c['property_id'], str(x)[:200])
print('manifest ok; evidence', 'ok' if ok else 'BAD')
sys.exit(0 if ok else 1)
