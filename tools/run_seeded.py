#!/venv/bin/python
"""Re-validates every kept seeded change against the current /repo HEAD.

For each seeded/<id>: scratch worktree of /repo HEAD (outside /repo and /verif), `git apply patch.diff` (3-way fallback),
pinned suite, demo with and without the patch, then every check named in meta.detected_by (VERIF_REPO=<worktree>).
Writes seeded/STATUS.md.  usage: tools/run_seeded.py [-j N] [id ...]"""
import concurrent.futures as cf
import json
import os
import subprocess
import sys
import tempfile

ROOT = '/verif'


def sh(cmd, cwd=None, env=None, timeout=3600):
    p = subprocess.run(cmd, shell=True, cwd=cwd, env=env, capture_output=True, text=True, timeout=timeout)
    return p.returncode, (p.stdout + p.stderr)


def one(sid):
    d = os.path.join(ROOT, 'seeded', sid)
    meta = json.load(open(os.path.join(d, 'meta.json')))
    wt = tempfile.mkdtemp(prefix=f'wt-{sid}-', dir='/tmp')
    os.rmdir(wt)
    row = {'id': sid, 'prop': meta['breaks_property'], 'detected_by': meta['detected_by']}
    try:
        rc, out = sh(f'git -C /repo worktree add -q --detach {wt} HEAD')
        if rc:
            row['apply'] = 'worktree-failed'
            return row
        rc, out = sh(f'git -C {wt} apply {d}/patch.diff')
        if rc:
            rc, out = sh(f'git -C {wt} apply --3way {d}/patch.diff')
        row['apply'] = 'ok' if rc == 0 else 'DOES-NOT-APPLY'
        if rc:
            return row
        rc, out = sh('/venv/bin/python -m pytest -q -p no:cacheprovider 2>&1 | tail -1', cwd=wt)
        row['pytest'] = out.strip().split(' in ')[0][-40:]
        if os.path.exists(os.path.join(d, 'demo.py')):
            rc1, _ = sh(f'timeout 300 /venv/bin/python {d}/demo.py', cwd=wt)
            rc0, _ = sh(f'timeout 300 /venv/bin/python {d}/demo.py', cwd='/repo')
            row['demo'] = f'{rc1}/{rc0}'
        res = {}
        for c in meta['detected_by']:
            env = dict(os.environ, VERIF_REPO=wt, VERIF_JOBS=os.environ.get('SEEDED_JOBS', '8'), VERIF_REPLAY_DIR=wt + '-replays')
            rc, out = sh(f'./check {c} --tier quick --no-evidence', cwd=ROOT, env=env)
            res[c] = ('VIOLATION' if rc == 1 and 'VIOLATION property=' in out else f'exit{rc}')
        row['checks'] = res
    finally:
        sh(f'git -C /repo worktree remove --force {wt}; rm -rf {wt}-replays')
    return row


def main():
    args = sys.argv[1:]
    jobs = 2
    if args[:1] == ['-j']:
        jobs = int(args[1])
        args = args[2:]
    full = not args
    ids = args or sorted(os.listdir(os.path.join(ROOT, 'seeded')))
    ids = [i for i in ids if os.path.isdir(os.path.join(ROOT, 'seeded', i))]
    rows = []
    with cf.ThreadPoolExecutor(jobs) as ex:
        for r in ex.map(one, ids):
            rows.append(r)
            print(json.dumps(r), flush=True)
    head = subprocess.run('git -C /repo rev-parse --short HEAD', shell=True, capture_output=True, text=True).stdout.strip()
    with open(os.path.join(ROOT, 'seeded', 'STATUS.md') if full else os.devnull, 'w') as f:
        f.write(f'# Seeded changes re-validated against /repo {head}\n\n')
        f.write('| id | breaks | patch applies | pinned suite | demo exit (patched/unchanged) | checks (quick tier) |\n|---|---|---|---|---|---|\n')
        for r in rows:
            st = json.load(open(os.path.join(ROOT, 'seeded', r['id'], 'meta.json'))).get('status')
            f.write(f"| {r['id']} | {r['prop']} | {r.get('apply')}{' (' + st.split(':')[0] + ')' if st else ''} | {r.get('pytest', '-')} | {r.get('demo', '-')} | "
                    f"{', '.join(k + ': ' + v for k, v in r.get('checks', {}).items()) or '-'} |\n")
    bad = [r for r in rows if r.get('apply') == 'ok' and any(v != 'VIOLATION' for v in r.get('checks', {}).values())]
    print('not detected:', [r['id'] for r in bad])
    print('do not apply:', [r['id'] for r in rows if r.get('apply') != 'ok'])


if __name__ == '__main__':
    main()
