#!/venv/bin/python
"""Groups the violation lines of a check run (stdin) by a few descriptor fields."""
import collections, json, sys
drop = set(sys.argv[1:]) or {'chars', 'within_chars'}
c = collections.Counter(); ex = {}
for line in sys.stdin:
    if line.startswith('{"phase"'):
        try:
            d = json.loads(line)
        except Exception:
            continue
        k = json.dumps({'phase': d['phase'], **{a: b for a, b in d['descriptor'].items() if a not in drop}}, sort_keys=True)
        c[k] += d.get('cases_with_this_descriptor', 1)
        ex.setdefault(k, (d.get('expected'), d.get('observed')))
    elif not line.startswith('VIOLATION'):
        print(line.rstrip()[:300])
for k, n in c.most_common():
    print(n, k, 'e.g. exp/obs:', ex[k])
