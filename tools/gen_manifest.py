#!/venv/bin/python
"""Regenerates MANIFEST.json from the table below (keeps the file valid and consistent)."""
import json
import os

HERE = os.path.dirname(os.path.dirname(os.path.abspath(__file__)))

# id -> (technique, level text, level note, design ref)
CHECKS = {
    'C01': ('bounded-exhaustive enumeration of operator skeletons x operand vectors x operand sources on the real pipeline, '
            'compared with an independent precedence-climbing reference evaluator',
            'all chains of 2 binary operators over the 11 operators with sign/percent decorations and bracketings, chains of 3 '
            'and 4 operators, unary/percent stacks and every decimal literal spelling up to the digit bound are translated and '
            'evaluated by the real Parser/Executor under several operand vectors (numbers, text, blank, TRUE; as overrides, '
            'workbook constants and literals); exhaustive within those bounds',
            'trusted: mc/ref/formula.py (reference grammar and IEEE arithmetic); small-scope hypothesis for longer chains',
            'DESIGN.md section 2 C01'),
    'C10': ('bounded-exhaustive enumeration of operand pairs x operators x sources on the real pipeline, judged by an exact '
            'rational reference and algebraic laws',
            'every ordered pair over a 40-value alphabet (numbers differing only in the fraction, negatives, texts, numeric '
            'texts, dates/date-times, blank, booleans) x six operators x three operand sources is evaluated through the real '
            'translator and executor; exhaustive within that alphabet',
            'trusted: the alphabet is representative (small-scope hypothesis); fractions.Fraction; openpyxl round trip',
            'DESIGN.md section 2 C10'),
}

PENDING_REASON = 'check not built yet in this session; see DESIGN.md section 2 for the planned model-checking approach'


def main():
    props = [json.loads(l) for l in open(os.path.join(HERE, 'properties.jsonl'), encoding='utf-8')]
    checks = []
    na = []
    for p in props:
        pid = p['id']
        if pid in CHECKS:
            tech, text, note, ref = CHECKS[pid]
            checks.append({
                'property_id': pid,
                'quick_cmd': f'./check {pid} --tier quick',
                'thorough_cmd': f'./check {pid} --tier thorough',
                'evidence_file': f'/verif/evidence/{pid}.json',
                'replay_cmd_template': f'./check {pid} --replay {{path}}',
                'engine': 'mc',
                'level_claimed': {'category': 'model_checking', 'text': text, 'design_ref': ref},
                'level_note': note,
                'technique': tech,
            })
        else:
            na.append({'property_id': pid, 'reason': PENDING_REASON})
    man = {
        'version': 1,
        'setup_cmd': 'cd /verif && /venv/bin/python -c "import openpyxl, excel2pycl; print(\'ok\')"',
        'hooks': {
            'guard': 'E2PYCL_VERIF',
            'enable': 'none needed: checks drive the unmodified library (sys.monitoring, clock shim and hash seeds live in /verif)',
            'baseline_off_cmd': 'cd /repo && /venv/bin/python -m pytest -ra -q -p no:cacheprovider --timeout=900',
            'source_commits': [],
            'add_only': True,
        },
        'engines': [{
            'name': 'mc', 'path': '/verif/mc',
            'serves_properties': sorted(CHECKS),
            'kind_free_text': 'hand-written explicit-state / bounded-exhaustive explorer in Python driving the real '
                              'Parser/Executor; per-property enumerators and independent reference models',
        }],
        'checks': checks,
        'not_applicable': na,
        'notes': 'All checks run /venv/bin/python against /repo (editable install), no build step. '
                 'KNOWN_FINDINGS.txt lists genuine defects recorded or repaired; replays/ holds violation artefacts.',
    }
    with open(os.path.join(HERE, 'MANIFEST.json'), 'w', encoding='utf-8') as f:
        json.dump(man, f, indent=1, ensure_ascii=False)
        f.write('\n')


if __name__ == '__main__':
    main()
