#!/venv/bin/python
"""Regenerates MANIFEST.json from the table below (keeps the file valid and consistent)."""
import json
import os

HERE = os.path.dirname(os.path.dirname(os.path.abspath(__file__)))

# id -> (technique, level text, level note, design ref)
CHECKS = {
    'C01': ('bounded-exhaustive enumeration of operator skeletons x operand vectors x operand sources on the real pipeline, '
            'compared with an independent precedence-climbing reference evaluator',
            'all chains of 2 binary operators over the 11 operators with sign/percent decorations and bracketings, chains of 3 '
            'and 4 operators, unary/percent stacks and every decimal literal spelling up to the digit bound are translated and '
            'evaluated by the real Parser/Executor under several operand vectors (numbers, text, blank, TRUE; as overrides, '
            'workbook constants and literals); text literals (all ordered pairs over 36 texts incl. runs of blanks, tabs, line breaks, '
            'look-alikes of tokens) with & = <>; operands in columns of 2-3 letters; blank operands that get their value from an override; '
            'exhaustive within those bounds',
            'trusted: mc/ref/formula.py (reference grammar and IEEE arithmetic); small-scope hypothesis for longer chains',
            'DESIGN.md section 2 C01'),
    'C02': ('bounded-exhaustive enumeration of reference spellings x prefixes x title sets x areas x function positions on '
            'workbooks whose every cell holds a unique number',
            'every sub-rectangle of a 4x4 window at three offsets and whole-column areas, with all $-spellings, unquoted / '
            'quoted prefixes over eight title sets (sheet orders permuted; digits, $, edge apostrophes, look-alikes), in 14 function positions, plus every column '
            '1..16384 (thorough; quick: boundary set + the columns named like functions) prefixed and bare, the row set, own-sheet semantics on every sheet, missing titles (incl. digits), '
            'sheets without cells and chart sheets at every position, overridden cells (falsy values) read through every spelling; values and order are '
            'compared with the planted numbers; exhaustive within those bounds',
            'trusted: planted-value oracle; Excel-legal reference spellings only (no reversed corners, no ! in titles)',
            'DESIGN.md section 2 C02'),
    'C03': ('bounded-exhaustive enumeration of dependency digraphs (programs), every node as entry point, against '
            'whole-workbook translation and a reference evaluation of the graph',
            'all labelled digraphs on up to 3 cells (4 in thorough; 5 with out-degree <= 2 by stride) over two sheets, six '
            'edge forms (direct, SUM over a cell / a whole column, IF, column argument of INDEX, IFERROR), all 216 sequences of three shared area fragments, entry cells addressed numerically, A1-style and through a Cell object already used by an Executor; '
            'closure (every reachable cell defined), value agreement, and parser exception for every cyclic graph / entry - on each of three requests of one Parser',
            'trusted: graph reference evaluator (weighted sums of distinct primes)', 'DESIGN.md section 2 C03'),
    'C04': ('explicit-state exploration: all histories of set_cells batches replayed on the real Executor, oracle = '
            're-translation of the edited workbook; repeated under a range of hash seeds in separate processes',
            'all sequences of d override batches (d=2 over all 34 batches, d=3 over the 20 core batches; thorough 3/4) with '
            'every cell queried after every step; batches cover the same cell written twice, formula / failing / blank / '
            'out-of-range / second-sheet / two-letter-column / pass-through-formula targets, areas reaching beyond the used range read by SUM, COUNT, MATCH, INDEX, VLOOKUP, falsy, type-changing and date-time values, both addressings; '
            'PYTHONHASHSEED 0..7 (0..63)',
            'trusted: differential oracle uses the same translator on the edited workbook; None and empty text are not override values',
            'DESIGN.md section 2 C04'),
    'C05': ('bounded-exhaustive enumeration of token sequences and single-token edits, judged by an independent reference grammar',
            'all sequences up to length 4 over 14 tokens (5 over 10 tokens; thorough 5/6), joined with and without blanks, through '
            'the real lexer/parser/translator; accepted texts are compiled and evaluated; every insertion/deletion/duplication '
            '(incl. characters no token knows) in a corpus with every supported function; every function x arity; whitespace at every boundary; every subset of '
            'separators swapped; 27 functions x 15 operator-expression arguments, plain vs bracketed',
            'trusted: mc/ref/formula.py grammar and the hand-written arity table', 'DESIGN.md section 2 C05'),
    'C07': ('bounded-exhaustive enumeration of strings x positions with an AST non-interference oracle, a canary and round-trip equality',
            'the empty text and all strings up to length 3 (4 thorough) over 14 special characters plus ~70 payloads, in constant cells, literals, '
            'concatenations, criteria of four functions (alone, after and in front of &), SEARCH/IF operands and sheet titles, safety check on and off: generated '
            'methods must have the AST shape of a benign string of the same lexical class, no payload may run, texts round-trip',
            'trusted: lexical-class regexes of the harness; Python ast module', 'DESIGN.md section 2 C07'),
    'C08': ('explicit-state exploration: all histories of query / override operations replayed on the real Executor with state '
            'invariants after every transition',
            'all sequences of 3 operations over 48 operations and of 4 over 24 core operations (thorough 4/5): get_cell in six '
            'spellings (lower-case letters, title + numbers ...), a second Executor over the same class, reused Cell objects, get_cells, get_sheet by index/title, four set_cells; values against a fresh executor '
            'with the same overrides, override map and sheet sizes against the model, grid shape/coordinates/values',
            'trusted: the fresh-executor oracle (same generated class)', 'DESIGN.md section 2 C08'),
    'C09': ('explicit-state BFS over Parser facade calls with state de-duplication and replay validation; hash-seed and '
            'process-history enumeration in separate processes; 2-thread schedule enumeration',
            'BFS to depth 5 (7 thorough) over 14 facade operations on colliding workbooks (one unsafe, one that fails after loading, one rewritten behind its path), every get/write compared with a fresh '
            'Parser and with the hand-fixed kind of answer; every reached state re-derived by replaying its history; written file = returned text for 19 workbooks; text hashes for 19 workbooks x 2 settings under '
            'PYTHONHASHSEED 0..7 (0..31) and after every other workbook in a cold process',
            'trusted: Parser state = its instance fields + caller-owned Cell objects (validated by replay)', 'DESIGN.md section 2 C09'),
    'C18': ('bounded-exhaustive enumeration of sparse layouts x value types read through the real Parser/Executor',
            'all 512 occupancy patterns of a 3x3 window at two offsets (+ covering subsets at (26,9) and (700,40)), single and '
            'multi-sheet configurations with empty sheets before/between/after and narrower-after-wider sheets, 26 value types (incl. texts that look like formulas after blanks / an apostrophe) '
            'rotated through positions; every coordinate of the used range, titles and sizes compared with the planted map',
            'trusted: openpyxl writer; normalisation by what xlsx loses (integral floats, dates, 16 digits)', 'DESIGN.md section 2 C18'),
    'C19': ('bounded-exhaustive enumeration of fragment placements and gate-toggle histories',
            'every placement of one fragment (21 fragments, also duplicated inside one cell and inside array formulas) over 3 sheets x 5-8 columns (incl. Z, AA, AZ) x 3-5 rows, ordered '
            'pairs of fragments, gate on/off, and all enable/disable/get sequences up to length 5 (6) on one Parser; exception '
            'type, reported keys and fragments compared with the planted positions',
            'trusted: hand-written expected fragments per alphabet entry', 'DESIGN.md section 2 C19'),
    'C10': ('bounded-exhaustive enumeration of operand pairs x operators x sources on the real pipeline, judged by an exact '
            'rational reference and algebraic laws',
            'every ordered pair over a 40-value alphabet (numbers differing only in the fraction, negatives, texts, numeric '
            'texts, dates/date-times, blank, booleans) x six operators x three operand sources is evaluated through the real '
            'translator and executor; exhaustive within that alphabet',
            'trusted: the alphabet is representative (small-scope hypothesis); fractions.Fraction; openpyxl round trip',
            'DESIGN.md section 2 C10'),
    'C16': ('bounded-exhaustive enumeration of a decimal grid x digit counts x rounding functions x operand sources on the real '
            'pipeline, judged by decimal.Decimal quantize',
            'sign x 9 integer parts x every fractional digit string up to 3 (4 thorough) digits x digit counts -3..6 x ROUND / '
            'ROUNDUP / ROUNDDOWN through the real Parser/Executor with number and digit count as overrides; the <=1 (2) digit '
            'subset also as workbook constants and formula literals; 15-significant-digit extras with digit counts -3..15; '
            'percent of every grid number and of the integers -2000..2000 from all three sources, alone and next to + - * (x%+0, x%-2, 2-x%, x%-x%, x%*1)',
            'trusted: decimal module; repr(double) as the decimal a double stands for', 'DESIGN.md section 2 C16'),
    'C15': ('bounded-exhaustive enumeration of (year, month, day) boxes, day pairs, month offsets and holiday subsets on the real '
            'pipeline against datetime/calendar arithmetic; environment-answer enumeration of the clock for TODAY',
            'DATE over 8 years x months -30..40 x days -70..100 (-400..420 thorough) with YEAR/MONTH/DAY, plus the boundary box as '
            'constants and literals; EDATE/EOMONTH for the days of 2019-2024 x offsets -60..60; DATEDIF D/M/Y/YM for all ordered '
            'day pairs of 2019-2024 (quick: every 5th day + month ends + leap days); NETWORKDAYS for all 4900 ordered pairs of a '
            '10-week window x 31 holiday subsets (holidays as a bounded area and as a whole column of another sheet); EOMONTH of date-times with a time of day; TODAY under 10 injected clock answers (local instant, UTC offset)',
            'trusted: datetime/calendar modules; the clock shim replaces the datetime module of the generated namespace',
            'DESIGN.md section 2 C15'),
    'C17': ('bounded-exhaustive enumeration of texts x positions/counts on the real pipeline, judged by Python slicing, an '
            'escaped case-insensitive regex search and the reference text forms',
            'all texts up to length 3 (4 thorough) over {a,B,?,*,~,.,(} x every count/start in -1..len+2 for LEFT, RIGHT, MID and '
            'the LEFT&MID identity (overrides; short texts also as constants and literals); SEARCH over all find texts up to '
            'length 2 (3) over 6 characters x all within texts up to length 3 (4) over 5 characters x every start; & and '
            'CONCATENATE over all single operands and ordered pairs/triples of 12 operand values; VALUE over the decimal grid texts with sign, padding, '
            'exponent and percent forms and over the numbers themselves (VALUE(n), VALUE(n&""))',
            'trusted: re/str of Python; mc/ref/formula.py text forms', 'DESIGN.md section 2 C17'),
    'C14': ('bounded-exhaustive enumeration of key columns x lookup values x match modes x table shapes, INDEX index boxes and '
            'every column number for ADDRESS/COLUMN on the real pipeline, judged by an independent linear search and base-26 routine',
            'all key columns of length 1..4 over 3 numeric and 3 text keys (also with a blank, and over {1, 0, TRUE, FALSE}) x 7/4 lookup values x VLOOKUP (widths 1..3, every result '
            'column, 5 range_lookup spellings), MATCH (3), XMATCH (4 judged + 6 explored mode pairs), INDEX(MATCH) as overrides and '
            '(length<=3) as constants with literal lookup values; the same tables as whole columns / with trailing blank rows on a sheet of their own; INDEX over 5 areas, an area taller than the used range of its sheet and a two-area form x r in -1..7, c in -1..4 x area '
            'number 1..3; ADDRESS for 3 rows x every column 1..16384; COLUMN in 6 spellings over the boundary columns (every '
            'column 1..16384 thorough), COLUMN() in 6 columns with and without an entry cell',
            'trusted: planted unique partner values; openpyxl get_column_letter cross-checks the base-26 routine',
            'DESIGN.md section 2 C14'),
    'C11': ('bounded-exhaustive enumeration of cell-content vectors x area shapes x splits x aggregate functions on the real '
            'pipeline, judged by an independent fold and by differential split laws',
            'all content vectors of length 1..4 (5 thorough) over 10 kinds planted into a row, a column, a rectangle and two other '
            'sheets x 12-15 argument forms (areas, whole column, every split, repeated area, single cells, scalars, bracketed and IF-wrapped expression arguments, an area below the used range) x SUM / AVERAGE / '
            'MIN / MAX / COUNT (+ COUNTBLANK on single areas); AND / OR / IF(AND) over all vectors up to length 4 over 5 truth kinds in '
            '5 forms; vectors up to length 2 as workbook constants',
            'trusted: the 20-line reference fold; dates count as serial numbers (Excel)', 'DESIGN.md section 2 C11'),
    'C12': ('bounded-exhaustive enumeration of criteria-range vectors x criterion forms x conditional-aggregate variants on the real '
            'pipeline, judged by an independent select-then-fold reference',
            'all criteria-range vectors of length 3 (4 thorough) over 8 (10) cell kinds x 33 criterion forms (numbers, logical values and their look-alike numbers, texts, six '
            'operators with numbers, = / <> with texts, operator & cell, criteria read from cells, wildcards ? * ~) x 19 function '
            'variants (SUMIF 2/3 arguments, SUMIFS / COUNTIFS / AVERAGEIFS with one and two pairs, mixed-content targets, SUMIF '
            'corner / short / long sum ranges, five size-mismatch forms); vectors of length 2 as workbook constants',
            'trusted: the reference criterion matcher (DESIGN appendix A.5); targets are powers of two', 'DESIGN.md section 2 C12'),
    'C13': ('bounded-exhaustive enumeration of IF / IFS / IFERROR nests (programs) x surrounding contexts x truth assignments on the '
            'real pipeline, judged by a lazy reference evaluator',
            'all 60 depth-1 constructs over 3 leaf kinds in 10 contexts; all 1920 depth-2 nests (one position nested, the others '
            'over the leaf kinds) in a rotating context; thorough: depth 3 over the leaf kinds {prime, failing}; condition cells '
            'overridden with every assignment over {TRUE, FALSE, 1, 0, blank} (<= 3 conditions) or all TRUE/FALSE assignments '
            'plus single deviations',
            'trusted: mc/ref/formula.py lazy evaluator', 'DESIGN.md section 2 C13'),
    'C20': ('bounded-exhaustive differential enumeration: every common runtime helper on the complete product of per-parameter '
            'alphabets, generated copy against importable copy; hand-written subclasses against generated classes',
            'helper sets and signatures of the two copies; for each of the 57 common helpers the product of its per-parameter '
            'alphabets (numbers, texts with wildcards / regex metacharacters, dates, blanks of the respective class, lists, tables, '
            'criteria predicates, callables, flags), extended by a generic pool of all value kinds below a size cap; three '
            'workbooks (function corpus, operators, criteria/lookups) evaluated cell by cell on a generated class and on a '
            'hand-written subclass of the base carrying the same cell members, with and without overrides',
            'trusted: nothing but equality of the two outcomes (neither copy is the oracle)', 'DESIGN.md section 2 C20'),
    'C06': ('bounded-exhaustive enumeration of adversarial workbooks (token soups, truncated formulas, constant types, special '
            'characters in texts and titles, nesting and dependency-chain sweeps) through the real Parser with a per-case time '
            'budget, judged by outcome class and by structural checks of the generated class',
            'every token sequence up to length 3 (4 thorough) over 16 tokens and length 4 (5) over 11 tokens as the only formula of '
            'a workbook and next to good cells; every prefix and single-character deletion of every corpus formula; 60 constant '
            'kinds and odd formulas; all strings up to length 2 (3) over 14 special characters as text constants; all legal sheet '
            'titles up to length 2 (3) over 11 special characters in three layouts; 12 nesting shapes at depths 1..20,32,64 '
            '(1..40..300) and dependency chains of up to 1000 (5000) cells in three directions; every accepted workbook: compiles, '
            'instantiates, titles, sizes, one member per cell, constants unchanged, file vs class object (subset)',
            'trusted: openpyxl writer; 5 s (20 s) per-case budget stands for "terminates"', 'DESIGN.md section 2 C06'),
}

PENDING_REASON = 'check not built yet in this session; see DESIGN.md section 2 for the planned model-checking approach'


def main():
    props = [json.loads(l) for l in open(os.path.join(HERE, 'properties.jsonl'), encoding='utf-8')]
    checks = []
    na = []
    for p in props:
        pid = p['id']
        if pid in CHECKS:
            tech, text, note, ref = CHECKS[pid]
            checks.append({
                'property_id': pid,
                'quick_cmd': f'./check {pid} --tier quick',
                'thorough_cmd': f'./check {pid} --tier thorough',
                'evidence_file': f'/verif/evidence/{pid}.json',
                'replay_cmd_template': f'./check {pid} --replay {{path}}',
                'engine': 'mc',
                'level_claimed': {'category': 'model_checking', 'text': text, 'design_ref': ref},
                'level_note': note,
                'technique': tech,
            })
        else:
            na.append({'property_id': pid, 'reason': PENDING_REASON})
    man = {
        'version': 1,
        'setup_cmd': 'cd /verif && /venv/bin/python -c "import openpyxl, excel2pycl; print(\'ok\')"',
        'hooks': {
            'guard': 'E2PYCL_VERIF',
            'enable': 'none needed: checks drive the unmodified library (sys.monitoring, clock shim and hash seeds live in /verif)',
            'baseline_off_cmd': 'cd /repo && /venv/bin/python -m pytest -ra -q -p no:cacheprovider --timeout=900',
            'source_commits': [],
            'add_only': True,
        },
        'engines': [{
            'name': 'mc', 'path': '/verif/mc',
            'serves_properties': sorted(CHECKS),
            'kind_free_text': 'hand-written explicit-state / bounded-exhaustive explorer in Python driving the real '
                              'Parser/Executor; per-property enumerators and independent reference models',
        }],
        'checks': checks,
        'not_applicable': na,
        'notes': 'All checks run /venv/bin/python against /repo (editable install), no build step. '
                 'KNOWN_FINDINGS.txt lists genuine defects recorded or repaired; replays/ holds violation artefacts.',
    }
    with open(os.path.join(HERE, 'MANIFEST.json'), 'w', encoding='utf-8') as f:
        json.dump(man, f, indent=1, ensure_ascii=False)
        f.write('\n')


if __name__ == '__main__':
    main()
