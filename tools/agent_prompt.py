#!/venv/bin/python
"""Prints the prompt for a mutant-writing sub-agent: property text + scratch worktree only."""
import json, sys
pid = sys.argv[1]
n = sys.argv[2] if len(sys.argv) > 2 else '2'
wt = sys.argv[3] if len(sys.argv) > 3 else f'/tmp/wt-{pid}'
p = [json.loads(l) for l in open('/verif/properties.jsonl') if json.loads(l)['id'] == pid][0]
print(f"""You are helping to test a verification harness by writing realistic property-breaking code changes ("seeded bugs") for the Python library esoft-tech/py-bc-excel2pycl (an Excel-formula-to-Python transpiler: it reads an .xlsx with openpyxl, parses formulas with a regex lexer and token-set parser, emits a Python class `ExcelInPython` with one method per cell plus a runtime library of Excel functions; `Parser` translates, `Executor` evaluates).

Your private scratch copy of the repository is the git worktree {wt} (detached HEAD). Work ONLY inside {wt} (and /tmp/agent-{pid} for scratch files). Do NOT read or touch /verif or /repo. Run Python as `/venv/bin/python` with the worktree as the current directory (`cd {wt} && /venv/bin/python ...`) so that `import excel2pycl` resolves to the worktree copy (check `excel2pycl.__file__`). There is no network. Always wrap throw-away runs in `timeout 300`. Beware: a script run as `python /some/dir/script.py` gets /some/dir first on sys.path, not the current directory - make every script (and every demo.py) start with `import os, sys; sys.path.insert(0, os.getcwd())` so that `excel2pycl` is imported from the current working directory (never hard-code the worktree path in a demo).

The property the changes must break:

  {p['id']} - {p['title']}
  Statement: {p['statement']}
  Quantified over: {p['quantifier']['text']}

Task: produce {n} DIFFERENT, independent changes to the library source (under {wt}/excel2pycl/), each of which
  1. makes the library violate the property above for SOME input / history / configuration,
  2. still imports fine and keeps the project's existing test suite green: `cd {wt} && /venv/bin/python -m pytest -q -p no:cacheprovider` must report 44 passed with the change applied (run it to be sure),
  3. is realistic - the kind of slip a maintainer could make in a refactoring or "optimisation" (an off-by-one in an index, a swapped merge order, a cache that is not invalidated, a hoisted scratch object, a widened/narrowed regex, a changed default, a dropped conversion, ...), a few lines, not a deliberately obfuscated backdoor,
  4. needs something SPECIFIC to manifest - a particular multi-step sequence of calls, an unusual input (a boundary value, a particular character, a particular column such as AA or one that is a multiple of 26, a particular nesting or operator neighbourhood), a particular configuration, or two cooperating sites that each look fine alone - NOT something that every ordinary use would expose at once. Prefer changes in different source files / mechanisms from each other. If the library has two copies of a runtime helper (excel2pycl/src/context.py holds the runtime as a str.format template with doubled braces; excel2pycl/src/utilities/abstract_excel_in_python_class.py is the importable twin), note that the generated classes use the template in context.py.

For each change k = 1..{n} write, under /tmp/agent-{pid}/m<k>/ :
  - patch.diff : `git -C {wt} diff` of that change alone against the worktree HEAD (apply each change separately: start every change from a clean worktree with `git -C {wt} checkout -- .`),
  - demo.py : a small self-contained program (it may build .xlsx files with openpyxl in a temp dir or BytesIO; `Parser.set_excel_file_path` accepts a path or a file object) that exits 0 on the unchanged library and exits 1 (printing what went wrong) with the change applied, demonstrating the property violation through the public API (Parser / Executor / Cell / generated class),
  - notes.txt : 3-6 lines: what was changed, which clause of the property it breaks, and exactly what is needed for it to manifest.
Verify for every change: pytest passes (44 passed) with the patch; demo.py exits 1 with the patch and 0 without. Leave the worktree clean (`git -C {wt} checkout -- .`) at the end.

Report back, for each change: the path of its directory, a one-paragraph description, what it needs to manifest, and the verification results you observed. Be concise.""")
