#!/venv/bin/python
"""vsum.py <Cxx> [tier] [field,field..to drop] : run a property and print ALL violations grouped by descriptor minus dropped fields."""
import sys, collections, json, os
sys.path.insert(0, '/verif')
from mc import main as M
prop = sys.argv[1]; tier = sys.argv[2] if len(sys.argv) > 2 else 'quick'
drop = set((sys.argv[3] if len(sys.argv) > 3 else 'chars,within_chars').split(','))
mod, stats, phases, samples, vio, herr, capped, wall = M.run_property(prop, tier, 0, 16)
c = collections.Counter(); ex = {}
for phase, runner, v in vio:
    d = {k: (tuple(x) if isinstance(x, list) else x) for k, x in v['desc'].items() if k not in drop}
    k = json.dumps({'phase': phase, **d}, sort_keys=True, default=str)
    c[k] += 1
    ex.setdefault(k, (v.get('expected'), v.get('observed'), v.get('case')))
for k, n in c.most_common(int(os.environ.get('TOP', '60'))):
    print(n, k, '| e.g.', str(ex[k])[:260])
for h in herr: print('HARNESS', h[0], h[2][-600:])
print('total', len(vio), 'groups', len(c), 'wall', round(wall, 1))
