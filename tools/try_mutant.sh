#!/bin/bash
# usage: tools/try_mutant.sh <dir with patch.diff [demo.py]> <Cxx> [Cyy ...]   (env TIER=quick|thorough)
# Applies the patch in a scratch worktree of /repo HEAD, verifies pytest + demo, runs the checks against it, cleans up.
set -u
dir=$(readlink -f "$1"); shift
wt=/tmp/wt-try-$$
git -C /repo worktree add -q --detach "$wt" HEAD || exit 9
trap 'git -C /repo worktree remove --force "$wt" >/dev/null 2>&1' EXIT
if ! git -C "$wt" apply "$dir/patch.diff"; then echo "PATCH-DOES-NOT-APPLY"; exit 8; fi
t=$(cd "$wt" && /venv/bin/python -m pytest -q -p no:cacheprovider 2>&1 | tail -1)
echo "pytest(with patch): $t"
if [ -f "$dir/demo.py" ]; then
  (cd "$wt" && timeout 300 /venv/bin/python "$dir/demo.py" >/dev/null 2>&1); echo "demo(with patch) exit=$?"
  (cd /repo && timeout 300 /venv/bin/python "$dir/demo.py" >/dev/null 2>&1); echo "demo(unchanged) exit=$?"
fi
for c in "$@"; do
  out=$(cd /verif && VERIF_REPLAY_DIR="$wt-replays" VERIF_REPO="$wt" ./check "$c" --tier "${TIER:-quick}" --no-evidence 2>&1); rc=$?
  n=$(echo "$out" | grep -c '^VIOLATION')
  echo "check $c: exit=$rc violations_printed=$n :: $(echo "$out" | tail -1 | cut -c1-200)"
  echo "$out" | grep -B1 '^VIOLATION' | head -2 | cut -c1-400
done
rm -rf "$wt-replays" 2>/dev/null
