"""Plain pytest (no explorer): every witness of a listed finding still replays as that finding, and every replay file left
under replays/ still fails.  Run:  cd /verif && /venv/bin/python -m pytest -q tests/test_replays.py"""
import glob
import io
import os
import sys
from contextlib import redirect_stdout

import pytest

HERE = os.path.dirname(os.path.dirname(os.path.abspath(__file__)))
sys.path.insert(0, HERE)

from mc import main as M  # noqa: E402

WITNESSES = sorted(glob.glob(os.path.join(HERE, 'tests', 'witness', '*.json')))
REPLAYS = sorted(glob.glob(os.path.join(HERE, 'replays', '*', '*.json')))


@pytest.mark.parametrize('path', WITNESSES, ids=[os.path.basename(p) for p in WITNESSES])
def test_witness_is_a_known_finding(path):
    buf = io.StringIO()
    with redirect_stdout(buf):
        rc = M.do_replay(path)
    out = buf.getvalue()
    assert rc == 0, out
    assert 'KNOWN-FINDING' in out, 'the witness no longer fails: the finding may have been repaired\n' + out


@pytest.mark.parametrize('path', REPLAYS, ids=[os.path.relpath(p, HERE) for p in REPLAYS])
def test_replay_still_fails(path):
    buf = io.StringIO()
    with redirect_stdout(buf):
        rc = M.do_replay(path)
    assert rc == 1, buf.getvalue()
